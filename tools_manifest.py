#!/usr/bin/env python3
"""Regenerates MANIFEST.json from the table below (kept in one place so it stays valid)."""
import json, os
ROOT = os.path.dirname(os.path.abspath(__file__))
CHECKS = {}
NA = {}
exec(open(os.path.join(ROOT, "manifest_table.py")).read())
props = [json.loads(l)["id"] for l in open(os.path.join(ROOT, "properties.jsonl"))]
checks = []
for pid in props:
    if pid in CHECKS:
        c = CHECKS[pid]
        checks.append(dict(
            property_id=pid, quick_cmd=f"./check {pid} quick", thorough_cmd=f"./check {pid} thorough",
            evidence_file=f"/verif/evidence/{pid}.json", replay_cmd_template=f"./check {pid} --replay {{path}}",
            engine=c.get("engine", "psym"),
            level_claimed=dict(category="model_checking", text=c["text"], design_ref=c["ref"]),
            level_note=c["note"], technique=c["technique"]))
na = [dict(property_id=p, reason=NA[p]) for p in props if p not in CHECKS]
m = dict(
    version=1,
    setup_cmd="./setup.sh --selftest",
    hooks=dict(guard="PSUTIL_VERIF", enable="no source hooks are needed: the checks replace psutil's module-level OS names (open, os, glob, resource, time, cext) at run time; the guard name is reserved and unused by the tree",
               baseline_off_cmd="cd /repo && /venv/bin/python -m pytest -ra -q -p no:cacheprovider --timeout=900 --continue-on-collection-errors",
               source_commits=[], add_only=True),
    engines=[
        dict(name="psym", path="psv/sym.py psv/seq.py psv/pattern.py psv/simk.py psv/run.py", serves_properties=sorted(CHECKS),
             kind_free_text="symbolic execution of the real psutil Python code by proxy values; z3 decides every data-dependent branch and every obligation; simulated kernel (procfs/sysfs/syscall stubs) supplies symbolic records; counterexamples are replayed on the real code with ordinary values"),
        dict(name="cir", path="psv/cir.py", serves_properties=["C17", "C18"],
             kind_free_text="bounded symbolic interpreter for the LLVM IR (clang -O0, regenerated from /repo on every run) of named C functions of the extension: z3 bit-vectors, byte memory of sized objects with a bounds obligation on every access, stubs for CPython/libc/kernel calls"),
        dict(name="sched", path="psv/sched.py", serves_properties=["C04", "C10", "C11", "C16"],
             kind_free_text="real threads run one at a time under a line-level scheduler (sys.settrace); 'pre-empt here?' is a symbolic boolean per yield point under a pre-emption budget, so the explorer enumerates exactly the admitted schedules while data stays symbolic"),
        dict(name="plat", path="psv/plat.py", serves_properties=["C18", "C19", "C20"],
             kind_free_text="imports /repo/psutil a second time under an alias package as another platform (sys.platform/os.name patched during the import only) over programmable stub native modules, or as Linux under different import-time conditions (cpufreq paths present; imported by another PID)"),
    ],
    checks=checks,
    not_applicable=na,
    notes="Every result is bounded (bounds are in each evidence file and in DESIGN.md section 5). Exit 2 = the machinery cannot vouch for its own answer (HARNESS-ERROR / INCONCLUSIVE), never a verdict.")
json.dump(m, open(os.path.join(ROOT, "MANIFEST.json"), "w"), indent=1)
print("checks:", [c["property_id"] for c in checks], "n/a:", [n["property_id"] for n in na])
