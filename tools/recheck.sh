#!/bin/bash
# usage: recheck.sh <worktree> <seeded dir names...> : re-run the quick check(s) recorded in meta.json against each stored change at /repo HEAD
W=$1; shift
cd /verif
head=$(git -C /repo rev-parse HEAD)
for d in "$@"; do
  git -C $W checkout -q -- . ; git -C $W checkout -q --detach $head
  if ! git -C $W apply /verif/seeded/$d/patch.diff 2>/dev/null; then echo "$d NOAPPLY"; continue; fi
  if grep -q '^+++ b/.*\.[ch]$' seeded/$d/patch.diff; then (cd $W && /venv/bin/python setup.py build_ext -i >/dev/null 2>&1); fi
  checks=$(python3 -c "import json;print(' '.join(json.load(open('seeded/$d/meta.json'))['confirmed']['checks'].keys()))")
  res=""
  for c in $checks; do PSV_REPO=$W nice -n 15 ./check $c quick > /tmp/recheck_$d_$c.log 2>&1; res="$res $c=$?"; done
  echo "$d$res"
  git -C $W checkout -q -- .
  if grep -q '^+++ b/.*\.[ch]$' seeded/$d/patch.diff; then (cd $W && /venv/bin/python setup.py build_ext -i >/dev/null 2>&1); fi
done
