#!/usr/bin/env python3
"""Confirm a seeded change produced by an independent agent and run the checks against it.
usage: tools/seed.py <property id> <N> [extra check ids...]
  1. in the scratch worktree /tmp/wt/<id>: patch applies, demo fails with it, passes without it;
  2. apply the patch to the scratch worktree /tmp/wt/CLEAN (at /repo's HEAD; never to /repo), run ./check <id> quick (and extra ids) against it via
     PSV_REPO, record exit codes / VIOLATION lines, revert the worktree;
  3. store patch, demo, meta.json under /verif/seeded/<id>-<N>/.
"""
import json, os, shutil, subprocess, sys
pid, n = sys.argv[1], sys.argv[2]
extra = sys.argv[3:]
wt = f"/tmp/wt/{pid}"
out = f"{wt}/out"
diff, demo, meta = f"{out}/mut{n}.diff", f"{out}/demo{n}.py", f"{out}/meta{n}.json"
def sh(cmd, cwd=None, timeout=3600):
    r = subprocess.run(cmd, shell=True, cwd=cwd, capture_output=True, text=True, timeout=timeout)
    return r.returncode, r.stdout + r.stderr
res = {}
sh("git checkout -- psutil", wt)
rc, o = sh(f"git apply --check {diff}", wt); res["applies"] = rc == 0
sh(f"git apply {diff}", wt)
needs_build = any(l.startswith("+++ b/") and l.strip().endswith((".c", ".h")) for l in open(diff))
if needs_build: sh("/venv/bin/python setup.py build_ext -i", wt)
rc1, o1 = sh(f"/venv/bin/python out/demo{n}.py", wt, 600); res["demo_fails_with_change"] = rc1 != 0
TESTS = "psutil/tests/test_linux.py psutil/tests/test_process.py psutil/tests/test_system.py psutil/tests/test_misc.py psutil/tests/test_posix.py psutil/tests/test_contracts.py"
def tests():
    rc, o = sh(f"/venv/bin/python -m pytest -q -p no:cacheprovider --timeout=300 {TESTS} 2>&1 | grep -E '^(FAILED|ERROR)|passed|failed' | sed 's/ - .*//'", wt, 1800)
    lines = o.strip().splitlines()
    return sorted(l for l in lines if l.startswith(("FAILED", "ERROR"))), (lines[-1] if lines else "")
tw = tests()
sh("git checkout -- psutil", wt)
if needs_build: sh("/venv/bin/python setup.py build_ext -i", wt)
rc2, o2 = sh(f"/venv/bin/python out/demo{n}.py", wt, 600); res["demo_passes_without_change"] = rc2 == 0
# baseline (no change): cached per commit of the scratch worktree -- the suite subset is deterministic apart from known flaky tests
_head = sh("git rev-parse HEAD", wt)[1].strip()
_cache = f"/tmp/wt/baseline_{_head[:10]}.json"
if os.path.exists(_cache):
    two = tuple(json.load(open(_cache)))
else:
    two = tests()
    json.dump(list(two), open(_cache, "w"))
res["tests_with_change"] = dict(failed=tw[0], summary=tw[1]); res["tests_without_change"] = dict(failed=two[0], summary=two[1])
res["suite_subset_same_with_and_without"] = tw[0] == two[0]
res["tests_files"] = TESTS
res["demo_output_with_change"] = o1[-600:]
# checks against the change: applied to the scratch worktree /tmp/wt/CLEAN (same commit as /repo), never to /repo itself
W = os.environ.get("SEED_W", "/tmp/wt/CLEAN")
head = sh("git -C /repo rev-parse HEAD")[1].strip()
sh(f"git -C {W} checkout -q -- . && git -C {W} checkout -q --detach {head}")
rc, o = sh(f"git -C {W} apply {diff}")
assert rc == 0, o
if needs_build: sh("/venv/bin/python setup.py build_ext -i", W)
checks = {}
try:
    for c in [pid] + extra:
        rcc, oc = sh(f"PSV_REPO={W} ./check {c} quick", "/verif", 3600)
        lines = [l for l in oc.splitlines() if l.startswith(("VIOLATION", "HARNESS-ERROR", "INCONCLUSIVE", "  harness=", "["))]
        checks[c] = dict(exit=rcc, lines=[l[:400] for l in lines[:8]])
finally:
    sh(f"git -C {W} checkout -q -- .")
    if needs_build: sh("/venv/bin/python setup.py build_ext -i", W)
res["checks"] = checks
res["caught"] = any(v["exit"] == 1 for v in checks.values())
d = f"/verif/seeded/{pid}-{n}"
os.makedirs(d, exist_ok=True)
shutil.copy(diff, f"{d}/patch.diff"); shutil.copy(demo, f"{d}/demo.py")
m = json.load(open(meta)) if os.path.exists(meta) else {}
m.update(property=pid, confirmed=res, what_was_run=f"tools/seed.py {pid} {n} {' '.join(extra)}: demo run with and without the patch in a scratch worktree; ./check <id> quick against a scratch worktree of /repo's HEAD with the patch applied (PSV_REPO), then reverted")
json.dump(m, open(f"{d}/meta.json", "w"), indent=1)
print(json.dumps({k: v for k, v in res.items() if k != "demo_output_with_change"}, indent=1)[:2500])
