#!/bin/bash
# usage: tools/tryseed.sh <seeded dir name, e.g. C05-1> [check ids...]   -- applies the seeded patch to the scratch worktree /tmp/wt/CLEAN2
# (never to /repo), runs the quick checks against it through PSV_REPO, and reverts it.
d=/verif/seeded/$1; shift
W=/tmp/wt/CLEAN2
git -C $W checkout -- . ; git -C $W apply $d/patch.diff || { echo "patch does not apply"; exit 2; }
if grep -q '^+++ b/.*\.[ch]$' $d/patch.diff; then (cd $W && /venv/bin/python setup.py build_ext -i >/dev/null 2>&1); fi
for c in "$@"; do (cd /verif; PSV_REPO=$W ${TIER_ENV:-} ./check $c ${TIER:-quick} 2>&1 | grep "^VIOLATION\|^HARNESS\|^INCONC\|^  harness\|^\[C" | cut -c1-330 | head -${LINES_MAX:-7}); done
git -C $W checkout -- .
if grep -q '^+++ b/.*\.[ch]$' $d/patch.diff; then (cd $W && /venv/bin/python setup.py build_ext -i >/dev/null 2>&1); fi
