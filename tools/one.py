"""Debug helper: explore one configuration of one harness in-process and print statistics.
usage: PYTHONPATH=.deps:. python tools/one.py C15 C15.wait <cfg index> <max paths> [thorough]"""
import sys, time
sys.path.insert(0, '/verif/.deps'); sys.path.insert(0, '/verif')
from psv import run, sym
prop, hname, idx, maxp = sys.argv[1], sys.argv[2], int(sys.argv[3]), int(sys.argv[4])
mod, hs = run.load(prop); h = hs[hname]; cfg = (h.thorough if len(sys.argv) > 5 else h.quick)[idx]
t = time.time()
ex = sym.Explorer(timeout_ms=h.timeout_ms, concretize_cap=h.cap, known=[k for k in run.known_findings() if k.get("status") == "known" and k.get("harness") == hname])
try:
    left = ex.run(run._with_cfg(h.fn), cfg, None, maxp, None)
finally:
    print(cfg, ex.stats.as_dict(), 'wall', round(time.time() - t, 1))
print('left', len(left))
for f in ex.findings[:6]: print(f)
print(ex.unknowns[:5])
