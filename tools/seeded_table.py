#!/usr/bin/env python3
"""Print the markdown table of DESIGN.md section 9.6 from seeded/*/meta.json (what each seeded change is, what it needs, which harness/label caught it)."""
import json, os, re
root = os.path.join(os.path.dirname(os.path.dirname(os.path.abspath(__file__))), "seeded")
print("| Change | What it does (summary written by the agent that made it) | Needs | Caught by (harness: label) |")
print("|---|---|---|---|")
for d in sorted(x for x in os.listdir(root) if os.path.isdir(os.path.join(root, x))):
    m = json.load(open(os.path.join(root, d, "meta.json")))
    c = m.get("confirmed", {})
    labs = []
    for ck, v in c.get("checks", {}).items():
        for l in v["lines"]:
            if "harness=" in l and "label=" in l:
                h = l.split("harness=")[1].split()[0]
                lab = l.split("label=")[1].split(" cfg=")[0]
                if (h, lab) not in labs:
                    labs.append((h, lab))
    clean = lambda t, n: re.sub(r"\s+", " ", (t or "")).replace("|", "/")[:n]
    caught = "; ".join(f"`{h}`: {lab}" for h, lab in labs[:2]) if c.get("caught") else "**not caught**"
    if str(m.get("status", "")).startswith("superseded"):
        caught = "superseded: no longer breaks the property since the repair it led to (see meta.json)"
    print(f"| {d} | {clean(m.get('summary'), 230)} | {clean(m.get('needs'), 200)} | {caught} |")
