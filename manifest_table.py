# pid -> dict(text, ref, note, technique); executed by tools_manifest.py
NOTE = ("Trusted: CPython, z3, the stub contracts of the simulated kernel listed in the evidence file (each follows the kernel's documented record formats), "
        "floats modelled as exact reals with a round() model. Every result is bounded: see evidence.coverage.bounds and outside_claim.")
TECH = "symbolic execution of the real Python code by proxy values; z3 decides every branch and obligation per path; every model replayed concretely on the real code"


def _c(pid, text, ref, note=NOTE, technique=TECH):
    CHECKS[pid] = dict(text=text, ref=ref, note=note, technique=technique)


_c("C07", "Bounded symbolic model checking of the real cpu_times/cpu_percent/cpu_times_percent/Process.cpu_percent code: all tick values are solver variables (any magnitude in [0,2^64), any single counter running backwards), the total delta is pinned to boundary values incl. sub-second ones, the caller's thread id and the interval argument are symbolic; z3 proves the share/sum/range/own-baseline formulas on every path or returns snapshots that are replayed on the real code.", "5.7")
_c("C08", "Bounded symbolic model checking of the real virtual_memory()/swap_memory(): every kB figure of /proc/meminfo, the zoneinfo watermarks and vmstat counters are solver variables, the presence of each optional field (group) is a symbolic flag; z3 proves the documented formulas (used, cached, available incl. the fallback estimate with exact truncation and clamps, percent, warnings) on every path.", "5.8")
_c("C09", "Bounded symbolic model checking of net_io_counters/disk_io_counters/disk_usage: all counters and interface-name characters are solver variables, whole-disk membership is a symbolic answer per device, every diskstats layout is a configuration; z3 proves per-device fields, totals over whole disks only, and the disk_usage formulas. One listed known finding (15-field 2.4 layout).", "5.9")
_c("C10", "Bounded symbolic model checking of the nowrap machinery through the public API: histories of K calls with symbolic function choice, nowrap flag, per-call device presence, raw counters and cache_clear events are explored and z3 proves value = raw + sum of pre-wrap values, monotonicity while present, restart after absence; plus one inductive step of _WrapNumbers.run from an arbitrary invariant-satisfying cache state (covers any history length for that step relation).", "5.10")
_c("C13", "Bounded symbolic model checking of memory_info/memory_full_info/memory_maps/memory_percent: statm page counts and every per-mapping kB figure of one mapping are solver variables, optional smaps lines and the path kind are symbolic choices, roll-up present/absent/failing; z3 proves the sums agree between both sources, rows 1:1, grouped sums, percent formula and ValueError for every other field name (symbolic string).", "5.13")
_c("C14", "Bounded symbolic model checking of open_files/num_fds/io_counters: the flag word, file offset and the kind of each descriptor (11 kinds incl. closing mid-scan) are solver variables; z3 proves the mode table for every flag word, the exact result set and fields, no exception for a live process; io file with junk lines at symbolic positions. One listed known finding (access mode 3).", "5.14")
_c("C15", "Bounded symbolic model checking of wait()/wait_procs() on a virtual clock: the exit instant, the timeout, the exit status word (code or signal), child/non-child/never-existed and the EINTR position are solver variables; z3 proves never-early, right status, cached second call, back-off bounds, TimeoutExpired only if alive at the last poll and at most 40 ms late, timeout=0 never sleeps, wait_procs partition/callback/deadline.", "5.15")
_c("C19", "Bounded symbolic model checking of sensors_temperatures/fans/battery, cpu_freq (cpuinfo variant), cpu_count, cpu_stats, boot_time over a simulated /sys and /proc tree: readings are solver variables, presence/garbage/unreadable states of every optional file, nesting, battery naming and AC state are symbolic choices; z3 proves the statement's arithmetic and skip/empty rules.", "5.19")
_PENDING = "check not built yet in this session (work in progress; see DESIGN.md section 8)"
for _p in ["C01", "C02", "C03", "C04", "C05", "C06", "C11", "C12", "C16", "C17", "C18", "C20"]:
    if _p not in CHECKS:
        NA[_p] = _PENDING
