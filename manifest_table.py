# pid -> dict(text, ref, note, technique)
NOTE = ("Trusted: CPython, z3, the stub contracts of the simulated kernel listed in the evidence file (each follows the kernel's documented record formats), "
        "floats modelled as exact reals with a round() model. Bounded: see evidence.coverage.bounds.")
CHECKS["C07"] = dict(
    text="Bounded symbolic model checking of the real cpu_times/cpu_percent/cpu_times_percent/Process.cpu_percent code: all tick values are solver variables (any magnitude in [0,2^64), any single counter running backwards), the total delta is pinned to boundary values incl. sub-second ones; z3 proves the share/sum/range formulas on every path, or returns snapshots that are replayed on the real code.",
    ref="5.7", note=NOTE, technique="symbolic execution of the real Python code (proxy values) + z3 (QF_LIRA) per path; concrete replay of every model")
_PENDING = "check not built yet in this session (work in progress; see DESIGN.md section 8)"
for _p in ["C01","C02","C03","C04","C05","C06","C08","C09","C10","C11","C12","C13","C14","C15","C16","C17","C18","C19","C20"]:
    NA[_p] = _PENDING
