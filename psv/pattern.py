"""SymPattern: a backtracking matcher for the regex subset psutil uses, over SymSeq (prototype v2).

Built from the *real* compiled pattern's source via re._parser, so an edited regex is what gets checked.
Character tests fork (SymBool), so within one path every test has a definite answer.
"""
import re
import re._constants as C
import re._parser as P
import z3

from . import sym
from .seq import SymSeq, _c
from .sym import HarnessError, SymBool

DIGIT = lambda c: z3.And(_c(c) >= 48, _c(c) <= 57)
SPACE_B = lambda c: z3.Or(*[_c(c) == w for w in (9, 10, 11, 12, 13, 32)])
WORD = lambda c: z3.Or(z3.And(_c(c) >= 48, _c(c) <= 57), z3.And(_c(c) >= 65, _c(c) <= 90), z3.And(_c(c) >= 97, _c(c) <= 122), _c(c) == 95)


def _cat(code, c):
    name = str(code)
    neg = "NOT_" in name
    base = {"DIGIT": DIGIT, "SPACE": SPACE_B, "WORD": WORD}[name.replace("CATEGORY_", "").replace("NOT_", "").replace("UNI_", "").replace("LOC_", "")]
    t = base(c)
    return z3.Not(t) if neg else t


class SymPattern:
    def __init__(self, real):
        self.real = real
        self.pattern = real.pattern
        self.flags = real.flags
        self.tree = P.parse(real.pattern, real.flags & ~re.UNICODE if isinstance(real.pattern, bytes) else real.flags)
        self.groups = real.groups
        self.multiline = bool(real.flags & re.M)
        self.dotall = bool(real.flags & re.S)
        self._cache = {}
        self._interned = {}

    # -- single-character test -----------------------------------------------------------
    def _test(self, op, av, c):
        if op is C.LITERAL:
            return _c(c) == av
        if op is C.NOT_LITERAL:
            return _c(c) != av
        if op is C.ANY:
            return z3.BoolVal(True) if self.dotall else _c(c) != 10
        if op is C.IN:
            neg, parts = False, []
            for o, a in av:
                if o is C.NEGATE:
                    neg = True
                elif o is C.LITERAL:
                    parts.append(_c(c) == a)
                elif o is C.RANGE:
                    parts.append(z3.And(_c(c) >= a[0], _c(c) <= a[1]))
                elif o is C.CATEGORY:
                    parts.append(_cat(a, c))
                else:
                    raise HarnessError(f"unsupported class item {o}")
            t = z3.Or(*parts) if parts else z3.BoolVal(False)
            return z3.Not(t) if neg else t
        return None

    # -- backtracking matcher: yields end positions in priority order ---------------------
    def _m(self, nodes, i, s, pos, groups):
        if i == len(nodes):
            yield pos, groups
            return
        op, av = nodes[i]
        items = s.items
        t = None
        if op in (C.LITERAL, C.NOT_LITERAL, C.ANY, C.IN):
            if pos < len(items):
                c = items[pos]
                if isinstance(c, int):          # concrete character: decide in Python, no term building
                    key = (id(av) if op is C.IN else av, op, c)
                    ok = self._cache.get(key)
                    if ok is None:
                        ok = z3.is_true(z3.simplify(self._test(op, av, c)))
                        self._cache[key] = ok
                else:
                    ok = bool(SymBool(self._test(op, av, c)))
                if ok:
                    yield from self._m(nodes, i + 1, s, pos + 1, groups)
            return
        if op is C.SUBPATTERN:
            gid, _, _, sub = av
            for end, g in self._m(list(sub), 0, s, pos, groups):
                g2 = dict(g)
                if gid is not None:
                    g2[gid] = (pos, end)
                yield from self._m(nodes, i + 1, s, end, g2)
            return
        if op in (C.MAX_REPEAT, C.MIN_REPEAT):
            lo, hi, sub = av
            sub = list(sub)
            hi = len(items) + 1 if hi is C.MAXREPEAT else hi

            def rep(count, p, g):
                if op is C.MIN_REPEAT and count >= lo:
                    yield from self._m(nodes, i + 1, s, p, g)
                if count < hi:
                    for end, g2 in self._m(sub, 0, s, p, g):
                        if end == p:
                            continue  # zero-width iteration
                        yield from rep(count + 1, end, g2)
                if op is C.MAX_REPEAT and count >= lo:
                    yield from self._m(nodes, i + 1, s, p, g)

            yield from rep(0, pos, groups)
            return
        if op is C.BRANCH:
            for alt in av[1]:
                for end, g in self._m(list(alt), 0, s, pos, groups):
                    yield from self._m(nodes, i + 1, s, end, g)
            return
        if op is C.AT:
            name = str(av)
            ok = None
            if name in ("AT_BEGINNING", "AT_BEGINNING_STRING"):
                ok = pos == 0 or (self.multiline and name == "AT_BEGINNING" and bool(SymBool(_c(items[pos - 1]) == 10)))
            elif name in ("AT_END", "AT_END_STRING"):
                ok = pos == len(items) or (name == "AT_END" and ((pos == len(items) - 1 and bool(SymBool(_c(items[pos]) == 10))) or (self.multiline and bool(SymBool(_c(items[pos]) == 10)))))
            else:
                raise HarnessError(f"unsupported anchor {name}")
            if ok:
                yield from self._m(nodes, i + 1, s, pos, groups)
            return
        raise HarnessError(f"unsupported regex construct {op}")

    def _t(self, op, av, c):
        """test as Python bool for a concrete character, z3 Bool otherwise"""
        if isinstance(c, int):
            key = (id(av) if op is C.IN else av, op, c)
            ok = self._cache.get(key)
            if ok is None:
                ok = z3.is_true(z3.simplify(self._test(op, av, c)))
                self._cache[key] = ok
            return ok
        return self._test(op, av, c)

    @staticmethod
    def _and(a, b):
        if a is False or b is False:
            return False
        if a is True:
            return b
        if b is True:
            return a
        return z3.And(a, b)

    @staticmethod
    def _or(alts):
        alts = [x for x in alts if x is not False]
        if any(x is True for x in alts):
            return True
        if not alts:
            return False
        return alts[0] if len(alts) == 1 else z3.Or(*alts)

    # -- existence of a match as one formula (dynamic programming over positions, no forking) ----
    def match_formula(self, s, start, memo=None):
        """z3 Bool: the pattern matches s starting exactly at `start` (some end)."""
        items = s.items
        memo = {} if memo is None else memo

        def M(nodes, i, pos):
            key = (id(nodes), i, pos)
            if key in memo:
                return memo[key]
            if i == len(nodes):
                r = True
            else:
                op, av = nodes[i]
                if op in (C.LITERAL, C.NOT_LITERAL, C.ANY, C.IN):
                    if pos >= len(items):
                        r = False
                    else:
                        t = self._t(op, av, items[pos])
                        r = False if t is False else self._and(t, M(nodes, i + 1, pos + 1))
                elif op is C.SUBPATTERN:
                    sub = tuple(av[3])
                    r = M(self._intern(sub + tuple(nodes[i + 1 :])), 0, pos)
                elif op in (C.MAX_REPEAT, C.MIN_REPEAT):
                    lo, hi, sub = av
                    sub = list(sub)
                    if len(sub) != 1 or sub[0][0] not in (C.LITERAL, C.NOT_LITERAL, C.ANY, C.IN):
                        raise HarnessError("match_formula: repeat of a non-single-character item")
                    hi = len(items) - pos if hi is C.MAXREPEAT else min(hi, len(items) - pos)
                    alts, run_ok = [], True
                    for n in range(0, hi + 1):
                        if n:
                            run_ok = self._and(run_ok, self._t(sub[0][0], sub[0][1], items[pos + n - 1]))
                            if run_ok is False:
                                break
                        if n >= lo:
                            alts.append(self._and(run_ok, M(nodes, i + 1, pos + n)))
                    r = self._or(alts)
                elif op is C.AT and str(av) in ("AT_BEGINNING", "AT_BEGINNING_STRING"):
                    at = pos == 0
                    if self.multiline and str(av) == "AT_BEGINNING" and pos > 0:
                        at = (items[pos - 1] == 10) if isinstance(items[pos - 1], int) else (items[pos - 1] == 10)
                    r = self._and(at, M(nodes, i + 1, pos))
                else:
                    raise HarnessError(f"match_formula: unsupported construct {op}")
            memo[key] = r
            return r

        return M(self._intern(tuple(self.tree)), 0, start)

    def _intern(self, nodes):
        key = tuple(map(id, nodes)) if False else repr(nodes)
        return self._interned.setdefault(key, list(nodes))

    def _first_pos_only(self, probe):
        """True when the pattern cannot match starting at the filler byte (position 0) of a concrete probe"""
        saved = self.tree
        try:
            for _ in self._m(list(self.tree), 0, probe, 0, {}):
                return False
        finally:
            self.tree = saved
        return True

    def _search_from(self, s, start):
        for p in range(start, len(s.items) + 1):
            for end, g in self._m(list(self.tree), 0, s, p, {}):
                return p, end, g
        return None

    def findall(self, data):
        if isinstance(data, (bytes, str)):
            return self.real.findall(data)
        s, out, pos = data, [], 0
        sym_pos = [i for i, c in enumerate(s.items) if not isinstance(c, int)]
        if sym_pos:
            last = sym_pos[-1]
            # can the pattern match starting anywhere at or before the last symbolic character?
            memo = {}
            # `^` in MULTILINE mode looks one character back, so the first concrete position is included too
            upto = last + 2 if self.multiline else last + 1
            anywhere = self._or([self.match_formula(s, p, memo) for p in range(0, min(upto, len(s.items) + 1))])
            anywhere = z3.BoolVal(anywhere) if isinstance(anywhere, bool) else anywhere
            if not bool(SymBool(anywhere)):
                # no: every match starts in the concrete tail, which the real engine handles.  The tail is handed to
                # the real engine behind one filler byte, so that `^` does not take the cut for the start of the text.
                tail = s.items[last + 1:]
                for filler in (0, 1, 0x7F):
                    probe = SymSeq([filler] + tail, s.kind)
                    if self._first_pos_only(probe):
                        break
                else:
                    raise HarnessError("hybrid findall: no neutral filler byte for this pattern")
                tail_b = bytes([filler] + tail) if s.kind == "bytes" else "".join(map(chr, [filler] + tail))
                return self.real.findall(tail_b)
        while pos <= len(s.items):
            m = self._search_from(s, pos)
            if m is None:
                break
            st, end, g = m
            piece = lambda a, b: s._mk(s.items[a:b])
            if self.groups == 0:
                out.append(piece(st, end))
            elif self.groups == 1:
                out.append(piece(*g[1]) if 1 in g else piece(0, 0))
            else:
                out.append(tuple(piece(*g[k]) if k in g else piece(0, 0) for k in range(1, self.groups + 1)))
            pos = end if end > st else end + 1
        return out

    def search(self, data):
        raise HarnessError("SymPattern.search not modelled")
