"""simk (design-phase prototype v2): a simulated kernel seen through psutil's module-level OS names."""
import contextlib
import errno
import fractions
import os as _os
import stat as _stat
import sys

from . import seq, sym
from .sym import HarnessError, SymInt

REPO = _os.environ.get("PSV_REPO", "/repo")
if REPO not in sys.path:
    sys.path.insert(0, REPO)
sys.dont_write_bytecode = True
import psutil  # noqa: E402
from psutil import _common, _pslinux, _psposix  # noqa: E402

MODS = (psutil, _common, _pslinux, _psposix)
MAIN = MODS


def oserr(code, path=None):
    return OSError(code, _os.strerror(code), path)  # constructs the right subclass


class AccessBudgetExceeded(Exception):
    """raised by the simulated kernel when the code under test keeps asking: the failed unwinding assertion of a 'terminates' claim"""


class FakeFile:
    def __init__(self, k, path, data, binary):
        self.k, self.path, self.binary = k, path, binary
        if isinstance(data, (bytes, str)):
            if binary and isinstance(data, str):
                data = data.encode(_common.ENCODING, _common.ENCODING_ERRS)
            if not binary and isinstance(data, bytes):
                data = data.decode(_common.ENCODING, _common.ENCODING_ERRS)
        elif isinstance(data, seq.SymSeq):
            if binary and data.kind == "str":
                data = data.encode()
            elif not binary and data.kind == "bytes":
                data = data.decode()
        self.data = data
        self.pos = 0

    def __enter__(self):
        return self

    def __exit__(self, *a):
        return False

    def close(self):
        pass

    def _gate(self):
        self.k.access("read", self.path)

    def read(self):
        self._gate()
        d = self.data[self.pos :]
        self.pos = len(self.data)
        return d

    def _nl(self):
        return b"\n" if self.binary else "\n"

    def readline(self):
        self._gate()
        rest = self.data[self.pos :]
        i = rest.find(self._nl())
        line = rest if i < 0 else rest[: i + 1]
        self.pos += len(line)
        return line

    def readlines(self):
        out = []
        while True:
            ln = self.readline()
            if not ln:
                return out
            out.append(ln)

    def __iter__(self):
        return iter(self.readlines())


class FailingFile(FakeFile):
    """a procfs file that can be opened but whose every read fails (ESRCH: the task went away between open() and read())"""

    def __init__(self, k, path, code=errno.ESRCH):
        FakeFile.__init__(self, k, path, b"", True)
        self.code = code

    def _gate(self):
        FakeFile._gate(self)
        raise oserr(self.code, self.path)

    def __iter__(self):
        self._gate()


def fails_on_read(k, path, code=errno.ESRCH):
    """value for k.files[path]: open() succeeds, read()/readline()/iteration raise OSError(code)"""
    return lambda: FailingFile(k, path, code)


class StatResult:
    def __init__(self, mode=_stat.S_IFREG | 0o644, rdev=0, dev=0):
        self.st_mode, self.st_rdev, self.st_dev = mode, rdev, dev


class Fault:
    """Fault plan: access index -> action; decided by the harness (possibly symbolically)."""

    def __init__(self):
        self.vanish_at = None  # SymInt | int | None: all /proc/P accesses >= this index fail
        self.deny_at = None  # this access alone fails with deny_errno
        self.deny_errno = errno.EACCES
        self.prefix = None  # the process directory the plan applies to, e.g. "/proc/77"
        self.pid = None
        self.fired = []
        self.keep_dir = False  # vanish: the process directory itself still answers stat() (the tear-down window of a dying task)


class Kernel:
    def __init__(self, ctx, clock_ticks=100, pagesize=4096):
        self.ctx = ctx
        self.files, self.dirs, self.links, self.stats = {}, {}, {}, {}
        self.log = []
        self.fault = Fault()
        self.naccess = 0
        self.naccess_total = 0
        self.access_budget = 100000    # generic guard against a call that never stops asking; harnesses that claim termination set a tight bound
        self.shadows = sym.Shadows()
        self.clock_ticks, self.pagesize = clock_ticks, pagesize
        self._ntok = 0
        self.kills = []
        self.deliveries = []
        self.kill_attempts = []
        self.procs = set()
        self.sysconf = {"SC_CLK_TCK": clock_ticks, "SC_NPROCESSORS_ONLN": 2}
        self.exists_oracle = None  # callable(path) -> bool|SymBool for paths unknown to the model
        self.now = fractions.Fraction(1000)
        self.sleeps = []
        self.settings = {}

    # ---- numerals ---------------------------------------------------------------------
    def num(self, v, text=False, base=10, lead=b"", suffix=""):
        """Rendering of v in `base`: real digits for ints, a registered digit placeholder for SymInt
        (the placeholder stands for the whole numeral, including a leading `lead` such as the `0` of %#o)."""
        if isinstance(v, SymInt):
            self._ntok += 1
            tok = lead + str(700000000 + self._ntok).encode() + suffix.encode()   # digits 0-7 only: valid in base 8, 10, 16
            self.shadows.register(tok, v)
        else:
            digits = {8: "%o", 10: "%d", 16: "%X"}[base] % int(v)
            tok = lead + digits.encode() + suffix.encode()
        return tok.decode() if text else tok

    # ---- fault gate -------------------------------------------------------------------
    def _in_scope(self, path):
        f = self.fault
        return f.prefix is not None and isinstance(path, str) and (path == f.prefix or path.startswith(f.prefix + "/"))

    def vanished(self):
        """has the process under the fault plan vanished by now? (decided; forks in symbolic mode)"""
        f = self.fault
        return f.vanish_at is not None and bool(f.vanish_at <= self.naccess)

    def access(self, kind, path):
        self.naccess_total += 1
        if self.access_budget is not None and self.naccess_total > self.access_budget:
            raise AccessBudgetExceeded(f"more than {self.access_budget} OS accesses in one harness run (the call does not terminate?)")
        i = self.naccess
        f = self.fault
        if self._in_scope(path):
            self.naccess += 1
            self.log.append((i, kind, path))
            if f.deny_at is not None and bool(f.deny_at == i):
                f.fired.append(("deny", i, kind, path))
                raise oserr(f.deny_errno, path)
            if f.vanish_at is not None and bool(f.vanish_at <= i):
                if f.keep_dir and path == f.prefix:
                    return         # the /proc/<pid> directory itself lingers while everything inside it is gone
                f.fired.append(("vanish", i, kind, path))
                raise oserr(errno.ESRCH if kind in ("read", "syscall") else errno.ENOENT, path)
        else:
            self.log.append((None, kind, path))

    # ---- fs primitives ------------------------------------------------------------------
    def open(self, fname, mode="r", **kw):
        if not isinstance(fname, str):
            raise HarnessError(f"open() of non-str path {fname!r}")
        self.access("open", fname)
        if fname in self.files:
            data = self.files[fname]
            if callable(data):
                data = data()
            if isinstance(data, BaseException):
                raise data
            if isinstance(data, FakeFile):
                return data
            return FakeFile(self, fname, data, "b" in mode)
        if self._known_space(fname):
            raise oserr(errno.ENOENT, fname)
        raise HarnessError(f"strict stub miss: open({fname!r})")

    def _known_space(self, p):
        return p.startswith(("/proc/", "/sys/", "/dev/", "/etc/"))

    def _children(self, d):
        """names directly under directory d implied by the paths the model knows (None if d is not implied)"""
        pre = d.rstrip("/") + "/"
        out, found = set(), False
        for n in list(self.files) + list(self.links) + list(self.dirs):
            if isinstance(n, str) and n.startswith(pre):
                found = True
                out.add(n[len(pre):].split("/", 1)[0])
        return sorted(out) if found else None

    def _all_paths(self):
        out = set()
        for n in list(self.files) + list(self.links) + list(self.dirs):
            if isinstance(n, str):
                out.add(n)
                parts = n.split("/")
                for i in range(2, len(parts)):
                    out.add("/".join(parts[:i]))
        return out

    def listdir(self, p):
        key = p.decode() if isinstance(p, bytes) else p
        self.access("listdir", key)
        if key == "/proc" and self.fault.pid is not None and self.vanished():
            names = [n for n in self.dirs["/proc"] if n != str(self.fault.pid)]
            return [n.encode() for n in names] if isinstance(p, bytes) else names
        if key not in self.dirs:
            ch = self._children(key)
            if ch is not None:
                return [n.encode() for n in ch] if isinstance(p, bytes) else ch
        if key in self.dirs:
            names = self.dirs[key]
            if isinstance(names, BaseException):
                raise names
            return [n.encode() for n in names] if isinstance(p, bytes) else list(names)
        if self._known_space(key):
            raise oserr(errno.ENOENT, key)
        raise HarnessError(f"strict stub miss: listdir({p!r})")

    def readlink(self, p):
        self.access("readlink", p)
        if p in self.links:
            t = self.links[p]
            if isinstance(t, BaseException):
                raise t
            return t
        if p in self.files or p in self.dirs:
            raise oserr(errno.EINVAL, p)
        if self._known_space(p):
            raise oserr(errno.ENOENT, p)
        raise HarnessError(f"strict stub miss: readlink({p!r})")

    def stat(self, p):
        if isinstance(p, str) and "\x00" in p:
            raise ValueError("embedded null byte")       # what os.stat() does with such a path
        if isinstance(p, seq.SymSeq) or not self._known_space(p) and self.exists_oracle:
            r = self.exists_oracle(p)
            if bool(r):
                return StatResult()
            raise oserr(errno.ENOENT, None)
        self.access("stat", p)
        if p in self.stats:
            r = self.stats[p]
            if isinstance(r, BaseException):
                raise r
            return r
        if p in self.files:
            data = self.files[p]
            if callable(data):
                data = data()
            if isinstance(data, BaseException):
                raise data
            return StatResult()
        if p in self.dirs or self._children(p) is not None:
            return StatResult(_stat.S_IFDIR | 0o755)
        if p in self.links:
            t = self.links[p]
            if isinstance(t, str) and not t.startswith("/") and "/" in t:       # a relative target (`../bond0`) is resolved from the link's directory
                t = _os.path.normpath(_os.path.join(_os.path.dirname(p), t))
            return self.stat(t) if isinstance(t, str) else StatResult()
        raise oserr(errno.ENOENT, p)

    def exists(self, p):
        try:
            self.stat(p)
            return True
        except OSError:
            return False

    def lexists(self, p):
        return p in self.links or self.exists(p)

    def glob(self, pat):
        import fnmatch

        return sorted(n for n in self._all_paths() if fnmatch.fnmatchcase(n, pat) and n.count("/") == pat.count("/"))

    def kill(self, pid, sig):
        if isinstance(pid, SymInt):
            if bool((pid > 2**31 - 1) | (pid < -(2**31))):
                raise OverflowError("signed integer is greater than maximum")
            for p in sorted(self.procs):
                if bool(pid == p):
                    if p in getattr(self, "denied", ()):
                        raise oserr(errno.EPERM)
                    self.kills.append((p, sig))
                    return
            raise oserr(errno.ESRCH)
        if not -(2**31) <= pid <= 2**31 - 1:
            raise OverflowError("signed integer is greater than maximum")
        self.kill_attempts.append((pid, sig))
        if pid not in self.procs or (pid == self.fault.pid and self.vanished()):
            raise oserr(errno.ESRCH)
        if pid in getattr(self, "denied", ()):
            raise oserr(errno.EPERM)
        self.kills.append((pid, sig))
        self.deliveries.append(("kill", pid, (sig,)))

    # ---- install ------------------------------------------------------------------------
    @contextlib.contextmanager
    def installed(self, full=True, extra=(), pkg=None):
        """Replace psutil's module-level OS names by the simulated kernel for the duration of one path.
        `extra` = further (module, name, value) patches.  Shadows (int/float/max/...) only in symbolic mode.
        `pkg` = an alias copy of the package (see psv.plat) to install into instead of the main one."""
        k = self
        if pkg is None:
            psutil, _common, _pslinux, _psposix = MAIN
        else:
            psutil, _common, _pslinux, _psposix = pkg, pkg._common, pkg._pslinux, pkg._psposix
        MODS = (psutil, _common, _pslinux, _psposix)
        os_proxy = OsProxy(k)
        k.os_proxy = os_proxy
        _MISSING = object()
        patches = [(_common, "open", k.open)]
        for m in MODS:
            for name, val in (("os", os_proxy), ("glob", GlobProxy(k))):
                if name in vars(m):
                    patches.append((m, name, val))
        if full:
            patches += [(_pslinux, "cext", CextProxy(k, _pslinux.cext)), (_pslinux, "cext_posix", CextProxy(k, _pslinux.cext_posix)),
                        (_pslinux, "resource", ResourceProxy(k)), (psutil, "pwd", PwdProxy(k)),
                        (_psposix, "time", TimeProxy(k)), (psutil, "time", TimeProxy(k)), (psutil, "_timer", k.timer)]
        # module state that must not leak from one path into the next
        state = [(_pslinux, "BOOT_TIME", None), (psutil, "_pmap", {}), (psutil, "_pids_reused", set()), (psutil, "_LOWEST_PID", None),
                 (psutil, "_TOTAL_PHYMEM", None), (_pslinux, "CLOCK_TICKS", k.clock_ticks), (_pslinux, "PAGESIZE", k.pagesize),
                 (psutil, "_last_cpu_times", {}), (psutil, "_last_per_cpu_times", {}), (psutil, "_last_cpu_times_2", {}),
                 (psutil, "_last_per_cpu_times_2", {})]
        patches += state + list(extra)
        # generic isolation of module-level state between paths: every global binding of the psutil modules is restored afterwards
        # (also names the tree did not have when this framework was written: a module-level cache added by a change under test), and
        # plain containers are replaced by copies for the duration so that in-place mutation cannot leak into the next path either.
        # The snapshot is taken BEFORE anything is patched.
        snapshot = [(m, dict(vars(m))) for m in MODS]
        saved = []
        for m, name, val in patches:
            saved.append((m, name, getattr(m, name, _MISSING)))
            setattr(m, name, val)
        patched = {(id(m), name) for m, name, _ in patches}
        for m in MODS:
            d = vars(m)
            for name, val in list(d.items()):
                if not name.startswith("__") and type(val) in (dict, list, set) and (id(m), name) not in patched:
                    d[name] = type(val)(val)
        if getattr(k.ctx, "symbolic", False):
            k.shadows.install(*MODS)
        self._clear_caches(_common, _pslinux, _psposix)
        try:
            yield k
        finally:
            if getattr(k.ctx, "symbolic", False):
                k.shadows.uninstall()
            for m, name, old in reversed(saved):
                if old is _MISSING:
                    if hasattr(m, name):
                        delattr(m, name)
                else:
                    setattr(m, name, old)
            for m, before in snapshot:
                d = vars(m)
                for name in [n for n in d if n not in before]:
                    del d[name]
                for name, val in before.items():
                    if d.get(name, _MISSING) is not val:
                        d[name] = val
            self._clear_caches(_common, _pslinux, _psposix)

    @staticmethod
    def _clear_caches(_common, _pslinux, _psposix):
        _psposix.get_terminal_map.cache_clear()
        _pslinux.set_scputimes_ntuple.cache_clear()
        _common._wn.cache_clear()
        if hasattr(_common.supports_ipv6, "cache_clear"):
            _common.supports_ipv6.cache_clear()
        # ... and every other memoized function of these modules, whatever it is called (a change under test may add one)
        for m in (_common, _pslinux, _psposix):
            for name, v in list(vars(m).items()):
                if callable(v) and not isinstance(v, type) and callable(getattr(v, "cache_clear", None)) and getattr(v, "__module__", None) == m.__name__:
                    try:
                        v.cache_clear()
                    except Exception:  # noqa: BLE001
                        pass

    @staticmethod
    def clamp(v, lo, hi):
        if isinstance(v, SymInt):
            return sym.sym_max(lo, sym.sym_min(v, hi))
        return max(lo, min(v, hi))

    # ---- virtual clock -------------------------------------------------------------------
    def timer(self):
        return self.now

    def sleep(self, d):
        self.sleeps.append(d)
        self.now = self.now + (fractions.Fraction(d) if isinstance(d, float) else d)


class TimeProxy:
    def __init__(self, k):
        self.k = k

    def sleep(self, d):
        self.k.sleep(d)

    def monotonic(self):
        return self.k.timer()

    def time(self):
        return self.k.timer()

    def __getattr__(self, n):
        raise HarnessError(f"strict stub miss: time.{n}")


class PwdProxy:
    def __init__(self, k):
        self.k = k

    def getpwuid(self, uid):
        import collections

        names = getattr(self.k, "users", {})
        if uid in names:
            return collections.namedtuple("pw", "pw_name")(names[uid])
        raise KeyError(uid)


class PathProxy:
    def __init__(self, k):
        self.k = k

    def exists(self, p):
        return self.k.exists(p)

    def lexists(self, p):
        return self.k.lexists(p)

    def isfile(self, p):
        try:
            return _stat.S_ISREG(self.k.stat(p).st_mode)
        except OSError:
            return False

    def isabs(self, p):
        return p.startswith("/")

    def basename(self, p):
        i = p.rfind("/") + 1
        return p[i:]

    def dirname(self, p):
        return _os.path.dirname(p)

    def join(self, *a):
        return _os.path.join(*a)

    def realpath(self, p):
        return p

    def islink(self, p):
        return p in self.k.links


class OsProxy:
    def __init__(self, k):
        self.k = k
        self.path = PathProxy(k)
        for n in ("listdir", "readlink", "stat", "kill"):
            setattr(self, n, getattr(k, n))

    def access(self, p, mode):
        orc = getattr(self.k, "access_oracle", None)
        if orc is not None and mode != _os.F_OK:
            return bool(orc(p))
        return self.k.exists(p)

    def walk(self, top):
        """os.walk over the simulated tree (top-down; files are the model's file entries, directories everything implied by paths)"""
        k = self.k
        pre = top.rstrip("/") + "/"
        files = sorted({n[len(pre):] for n in k.files if isinstance(n, str) and n.startswith(pre) and "/" not in n[len(pre):]})
        dirs = sorted({n[len(pre):].split("/", 1)[0] for n in list(k.files) + list(k.dirs) + list(k.links) if isinstance(n, str) and n.startswith(pre) and "/" in n[len(pre):]}
                      | {n[len(pre):] for n in k.dirs if isinstance(n, str) and n.startswith(pre) and "/" not in n[len(pre):] and n[len(pre):]})
        k.access("listdir", top)
        yield top, dirs, files
        for d in dirs:
            yield from self.walk(pre + d)

    def sysconf(self, name):
        if name in getattr(self.k, "sysconf_errors", ()):
            raise ValueError("unrecognized configuration name")
        return self.k.sysconf[name]

    def statvfs(self, path):
        self.k.access("statvfs", path)
        tbl = getattr(self.k, "statvfs", {})
        if path in tbl:
            return tbl[path]
        raise oserr(errno.ENOENT, path)

    F_OK, R_OK, W_OK, X_OK = _os.F_OK, _os.R_OK, _os.W_OK, _os.X_OK
    WNOHANG = _os.WNOHANG

    def waitpid(self, pid, flags):
        fn = getattr(self.k, "waitpid_fn", None)
        if fn is None:
            raise HarnessError("strict stub miss: os.waitpid")
        return fn(pid, flags)

    # wait-status macros over a possibly symbolic status word (bits/waitstatus.h)
    @staticmethod
    def WIFEXITED(st):
        return (st & 0x7F) == 0

    @staticmethod
    def WEXITSTATUS(st):
        return (st >> 8) & 0xFF

    @staticmethod
    def WIFSIGNALED(st):
        low = st & 0x7F
        return (low != 0) & (low != 0x7F) if isinstance(low, SymInt) else (low != 0 and low != 0x7F)

    @staticmethod
    def WTERMSIG(st):
        return st & 0x7F

    @staticmethod
    def WIFSTOPPED(st):
        return (st & 0xFF) == 0x7F

    def getpid(self):
        return 4242

    # pure arithmetic on device numbers
    makedev, major, minor = staticmethod(_os.makedev), staticmethod(_os.major), staticmethod(_os.minor)

    def __getattr__(self, n):
        v = getattr(_os, n)
        if callable(v):
            raise HarnessError(f"strict stub miss: os.{n}")
        return v


class GlobProxy:
    def __init__(self, k):
        self.k = k

    def glob(self, pat):
        return self.k.glob(pat)

    iglob = glob


# ---- procfs rendering helpers ------------------------------------------------------------


def stat_record(k, pid, comm, state=b"S", fields=None, last=52):
    """`pid (comm) state f4 f5 ... f<last>` per fs/proc/array.c; fields: {man_proc_position: value} (others 0).
    comm may be bytes or a symbolic byte sequence; it is rendered raw, as the kernel does."""
    f = {i: 0 for i in range(4, last + 1)}
    f.update({i: v for i, v in (fields or {}).items() if i <= last})
    state = state if isinstance(state, (bytes, seq.SymSeq)) else state.encode()
    tail = state + b" " + b" ".join(k.num(f[i]) for i in range(4, last + 1)) + b"\n"
    return str(pid).encode() + b" (" + comm + b") " + tail


def add_process(k, pid, comm=b"cat", state=b"S", stat_fields=None, status=None, extra=None):
    k.procs.add(pid)
    base = f"/proc/{pid}"
    k.dirs.setdefault("/proc", [])
    if str(pid) not in k.dirs["/proc"]:
        k.dirs["/proc"].append(str(pid))
    k.dirs[base] = ["stat", "status", "cmdline", "fd", "task"]
    k.files[f"{base}/stat"] = stat_record(k, pid, comm, state, stat_fields)
    if status is not None:
        k.files[f"{base}/status"] = status
    for p, v in (extra or {}).items():
        k.files[f"{base}/{p}"] = v


# ---- a complete healthy process (all files psutil reads) ------------------------------------

STATUS_TMPL = (
    "Name:\t{comm}\nUmask:\t0022\nState:\tS (sleeping)\nTgid:\t{pid}\nNgid:\t0\nPid:\t{pid}\nPPid:\t{ppid}\nTracerPid:\t0\n"
    "Uid:\t1000\t1001\t1002\t1003\nGid:\t2000\t2001\t2002\t2003\nFDSize:\t64\nGroups:\t4 24\nVmPeak:\t   10000 kB\n"
    "Threads:\t2\nSigQ:\t0/100\nCpus_allowed:\tf\nCpus_allowed_list:\t0-3\nvoluntary_ctxt_switches:\t150\nnonvoluntary_ctxt_switches:\t7\n"
)
SMAPS_TMPL = (
    "00400000-0040b000 r-xp 00000000 08:01 1234 /usr/bin/cat\nSize: 44 kB\nRss: 40 kB\nPss: 20 kB\nShared_Clean: 30 kB\nShared_Dirty: 0 kB\n"
    "Private_Clean: 8 kB\nPrivate_Dirty: 2 kB\nReferenced: 40 kB\nAnonymous: 0 kB\nSwap: 1 kB\nVmFlags: rd ex mr mw me dw\n"
    "7ffd1000-7ffd3000 rw-p 00000000 00:00 0 [stack]\nSize: 8 kB\nRss: 8 kB\nPss: 8 kB\nShared_Clean: 0 kB\nShared_Dirty: 0 kB\n"
    "Private_Clean: 0 kB\nPrivate_Dirty: 8 kB\nReferenced: 8 kB\nAnonymous: 8 kB\nSwap: 0 kB\nVmFlags: rd wr mr mw me gd ac\n"
)
ROLLUP_TMPL = "00400000-7ffd3000 ---p 00000000 00:00 0 [rollup]\nRss: 48 kB\nPss: 28 kB\nPrivate_Clean: 8 kB\nPrivate_Dirty: 10 kB\nSwap: 1 kB\n"


def full_process(k, pid, ppid=1, comm="cat", zombie=False):
    base = f"/proc/{pid}"
    add_process(k, pid, comm.encode(), b"Z" if zombie else b"S", {4: ppid, 7: 34816, 14: 11, 15: 12, 16: 13, 17: 14, 20: 2, 22: 5000, 39: 1, 42: 3})
    k.files[f"{base}/status"] = STATUS_TMPL.format(comm=comm, pid=pid, ppid=ppid)
    k.files[f"{base}/statm"] = "100 50 25 10 0 30 0\n"
    k.files[f"{base}/cmdline"] = "" if zombie else "/usr/bin/cat\x00-n\x00"
    k.files[f"{base}/environ"] = "" if zombie else "A=1\x00B=2\x00"
    k.files[f"{base}/io"] = "rchar: 1\nwchar: 2\nsyscr: 3\nsyscw: 4\nread_bytes: 5\nwrite_bytes: 6\ncancelled_write_bytes: 0\n"
    k.files[f"{base}/smaps"] = "" if zombie else SMAPS_TMPL
    k.files[f"{base}/smaps_rollup"] = "" if zombie else ROLLUP_TMPL
    k.dirs[f"{base}/task"] = [str(pid), str(pid + 1)]
    for t in (pid, pid + 1):
        k.files[f"{base}/task/{t}/stat"] = stat_record(k, t, comm.encode(), b"S", {14: 21, 15: 22})
    k.dirs[f"{base}/fd"] = ["0", "3", "4"]
    k.links[f"{base}/fd/0"] = "/dev/pts/0"
    k.links[f"{base}/fd/3"] = "/data/file"
    k.links[f"{base}/fd/4"] = "socket:[5555]"
    k.stats["/data/file"] = StatResult()
    k.stats["/dev/pts/0"] = StatResult(0o020620, rdev=34816)
    k.files[f"{base}/fdinfo/3"] = "pos:\t10\nflags:\t0100002\nmnt_id:\t1\n"
    k.links[f"{base}/exe"] = oserr(errno.ENOENT, f"{base}/exe") if zombie else "/usr/bin/cat"
    k.links[f"{base}/cwd"] = oserr(errno.ENOENT, f"{base}/cwd") if zombie else "/home/u"
    k.stats["/usr/bin/cat"] = StatResult(0o100755)
    k.settings = getattr(k, "settings", {})
    k.settings[pid] = dict(nice=0, ioprio=(2, 4), affinity=[0, 1], rlimits={})


def system_files(k):
    k.files["/proc/stat"] = "cpu  10 20 30 40 50 60 70 80 90 100\ncpu0 10 20 30 40 50 60 70 80 90 100\nintr 5\nctxt 6\nbtime 1000000\nsoftirq 7\n"
    k.files["/proc/meminfo"] = "MemTotal: 8000 kB\nMemFree: 1000 kB\nMemAvailable: 4000 kB\nBuffers: 100 kB\nCached: 2000 kB\nShmem: 5 kB\nActive: 6 kB\nInactive: 7 kB\nSReclaimable: 8 kB\nSlab: 9 kB\n"
    hdr = "  sl  local_address rem_address   st tx_queue rx_queue tr tm->when retrnsmt   uid  timeout inode\n"
    k.files["/proc/net/tcp"] = hdr + "   0: 0100007F:1F90 00000000:0000 0A 00000000:00000000 00:00000000 00000000  1000        0 5555 1 0000000000000000 100 0 0 10 0\n"
    for f in ("tcp6", "udp", "udp6"):
        k.files[f"/proc/net/{f}"] = hdr
    k.files["/proc/net/unix"] = "Num       RefCount Protocol Flags    Type St Inode Path\n"
    k.dirs["/dev/pts"] = ["0"]
    k.files["/dev/pts/0"] = ""
    k.stats["/dev/pts/0"] = StatResult(0o020620, rdev=34816)


def _decide(c):
    return bool(c)


class CextProxy:
    """Per-process syscalls behind the C extension, as a kernel stub with the same fault gate."""

    def __init__(self, k, real):
        self.k, self.real = k, real

    def _who(self, pid):
        """pid 0 in getpriority/setpriority/ioprio_*/sched_*affinity/prlimit means the CALLING process"""
        if isinstance(pid, int) and not isinstance(pid, bool) and pid == 0:
            return self.k.os_proxy.getpid()
        return pid

    def _gate(self, pid, what):
        self.k.access("syscall", f"/proc/{pid}/@{what}")
        if pid not in self.k.procs:
            raise oserr(errno.ESRCH)

    def check_pid_range(self, pid):
        return None

    def getpriority(self, pid):
        pid = self._who(pid)
        self._gate(pid, "getpriority")
        return self.k.settings[pid]["nice"]

    def proc_ioprio_get(self, pid):
        pid = self._who(pid)
        self._gate(pid, "ioprio_get")
        return self.k.settings[pid]["ioprio"]

    def proc_cpu_affinity_get(self, pid):
        pid = self._who(pid)
        self._gate(pid, "sched_getaffinity")
        return list(self.k.settings[pid]["affinity"])

    def getpagesize(self):
        return self.k.pagesize

    # ---- setters: every call that reaches the "kernel" is logged in k.deliveries as (what, pid, args)
    def _deliver(self, what, pid, *args):
        self.k.access("syscall", f"/proc/{pid}/@{what}")
        if not isinstance(pid, int) or isinstance(pid, bool):
            raise HarnessError(f"{what}: non-concrete pid {pid!r}")
        if pid not in self.k.procs:
            # the per-task system calls (setpriority, ioprio_set, sched_setaffinity) accept a THREAD id as well: it then acts on that
            # thread alone; recorded as a delivery to that id (which is not the process the caller named)
            if not any(str(pid) in self.k.dirs.get(f"/proc/{p_}/task", ()) for p_ in self.k.procs):
                raise oserr(errno.ESRCH)
            self.k.deliveries.append((what, pid, args))
            return False
        if pid in getattr(self.k, "denied", ()):
            raise oserr(errno.EPERM)
        self.k.deliveries.append((what, pid, args))
        return True

    def setpriority(self, pid, value):
        pid = self._who(pid)
        if not self._deliver("setpriority", pid, value):
            return
        self.k.settings[pid]["nice"] = self.k.clamp(value, -20, 19)

    def proc_ioprio_set(self, pid, ioclass, value):
        pid = self._who(pid)
        if not self._deliver("ioprio_set", pid, ioclass, value):
            return
        if _decide((ioclass < 0) | (ioclass > 3)) if isinstance(ioclass, SymInt) else not 0 <= ioclass <= 3:
            raise oserr(errno.EINVAL)
        self.k.settings[pid]["ioprio"] = (ioclass, value)

    def proc_cpu_affinity_set(self, pid, cpus):
        pid = self._who(pid)
        if not self._deliver("sched_setaffinity", pid, tuple(cpus)):
            return
        allowed = self.k.settings[pid].get("allowed", [0, 1, 2, 3])
        for c in cpus:
            if not isinstance(c, int) or isinstance(c, bool):
                raise TypeError(f"sequence of integers expected, got {c!r}")
            if c < 0:
                raise ValueError(f"invalid CPU value {c}")
        eff = sorted(set(c for c in cpus if c in allowed))
        if not eff:
            raise oserr(errno.EINVAL)
        self.k.settings[pid]["affinity"] = eff

    def linux_sysinfo(self):
        return self.k.sysinfo

    def __getattr__(self, n):
        v = getattr(self.real, n)
        if callable(v):
            raise HarnessError(f"strict stub miss: cext.{n}")
        return v


class ResourceProxy:
    def __init__(self, k):
        self.k = k

    def prlimit(self, pid, res, limits=None):
        if isinstance(pid, int) and not isinstance(pid, bool) and pid == 0:
            pid = self.k.os_proxy.getpid()      # prlimit(0, ...) = the calling process
        self.k.access("syscall", f"/proc/{pid}/@prlimit")
        if pid not in self.k.procs:
            raise oserr(errno.ESRCH)
        if pid in getattr(self.k, "denied", ()):
            raise oserr(errno.EPERM)
        if limits is None:
            return self.k.settings[pid]["rlimits"].get(res, (1024, 4096))
        self.k.deliveries.append(("prlimit", pid, (res, tuple(limits))))
        soft, hard = limits
        if _decide(soft > hard) and _decide(hard != -1):
            raise oserr(errno.EINVAL)
        self.k.settings[pid]["rlimits"][res] = tuple(limits)

    def __getattr__(self, n):
        import resource

        return getattr(resource, n)


def installed_full(k):
    return k.installed(full=True)
