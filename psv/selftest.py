"""Engine self-tests run by MANIFEST.setup_cmd: every SymSeq / SymPattern operation is compared with the real
bytes/str/re operation on the model of every path (differential validation of the encoding)."""
import re
import sys
import time

import z3

from . import pattern, seq, sym
from .sym import Explorer, evaluate

ALPHA = [ord("a"), ord(" "), ord(")"), ord("\n"), ord("("), ord(":")]


def mk_ops(kind):
    B = (lambda s: s.encode()) if kind == "bytes" else (lambda s: s)
    return {
        "find)": lambda s: s.find(B(")")), "rfind)": lambda s: s.rfind(B(")")), "find(": lambda s: s.find(B("(")),
        "split": lambda s: s.split(), "split_sp": lambda s: s.split(B(" ")), "split5": lambda s: s.split(None, 2), "split_ws1": lambda s: s.split(None, 1), "split_ws0": lambda s: s.split(None, 0),
        "strip": lambda s: s.strip(), "rstrip": lambda s: s.rstrip(), "starts": lambda s: s.startswith(B("a ")),
        "ends": lambda s: s.endswith(B(") ")), "in": lambda s: B(" a") in s, "slice": lambda s: s[s.find(B("(")) + 1: s.rfind(B(")"))],
        "replace": lambda s: s.replace(B("a"), B("bb"), 1), "partition": lambda s: s.partition(B(":")), "rpartition": lambda s: s.rpartition(B(":")),
        "lines": lambda s: s.splitlines(), "count": lambda s: s.count(B("a")), "split:1": lambda s: s.split(B(": ")),
        "concat": lambda s: (B("x (") + s + B(") y")).rfind(B(")")), "lower": lambda s: s.lower(), "split1": lambda s: s.split(B(":"), 1),
        "rsplit": lambda s: s.rsplit(B(" "), 1) if hasattr(s, "rsplit") else None, "eq": lambda s: s == B("a)"),
        "strip_nul": lambda s: s.strip(B("a")), "isdigit": lambda s: s.isdigit(),
    }


def diff_seq(kind, L):
    bad, npaths = [], 0
    for opname, op in mk_ops(kind).items():
        res = []

        def h(ctx):
            s = seq.fresh(ctx, "s", L, kind, lo=0, hi=255)
            if isinstance(s, seq.SymSeq):
                for c in s.items:
                    ctx.ex.add(z3.Or(*[c == a for a in ALPHA]))
            r = op(s)
            m = ctx.ex.current_model()
            cs = evaluate(m, s)
            res.append((cs, evaluate(m, r), op(cs)))

        ex = Explorer()
        ex.run(h)
        npaths += ex.stats.paths
        for cs, got, want in res:
            if got != want:
                bad.append((kind, opname, cs, got, want))
    return npaths, bad


PATS = [rb"Uid:\t(\d+)\t(\d+)\t(\d+)", rb"Threads:\t(\d+)", rb"ctxt_switches:\t(\d+)", rb"\nPrivate.*:\s+(\d+)", rb"\nPss\:\s+(\d+)",
        rb"Cpus_allowed_list:\t(\d+)-(\d+)", rb"Gid:\t(\d+)\t(\d+)\t(\d+)", rb"\nSwap\:\s+(\d+)",
        (rb"^Uid:\t(\d+)\t(\d+)\t(\d+)", re.M), (rb"^Threads:\t(\d+)", re.M), (rb"^P", re.M), (rb"^U", 0)]
PALPHA = [ord(c) for c in "U:\t1\n-P"]


def diff_pat(L):
    bad, total = [], 0
    for pat, lead in [(p_, l_) for p_ in PATS for l_ in (b"Name:\t", b"")]:
        rp = re.compile(*pat) if isinstance(pat, tuple) else re.compile(pat)
        sp = pattern.SymPattern(rp)
        res = []

        def h(ctx):
            mid = seq.fresh(ctx, "s", L, "bytes", lo=0, hi=255)
            if isinstance(mid, seq.SymSeq):
                for c in mid.items:
                    ctx.ex.add(z3.Or(*[c == a for a in PALPHA]))
            data = lead + mid + b"\nUid:\t10\t20\t30\nGid:\t1\t2\t3\nThreads:\t4\nCpus_allowed_list:\t0-3\nPrivate_Clean:    8 kB\nPss:  5 kB\nSwap: 3 kB\nvoluntary_ctxt_switches:\t9\n"
            r = sp.findall(data)
            m = ctx.ex.current_model()
            res.append((evaluate(m, data), evaluate(m, r)))

        Explorer().run(h)
        for d, got in res:
            total += 1
            if got != rp.findall(d):
                bad.append((pat, d, got, rp.findall(d)))
    return total, bad


def main():
    t = time.time()
    quick = "--quick" in sys.argv
    paths, bad = 0, []
    for kind in ("bytes", "str"):
        for L in (0, 1, 2, 3) if quick else (0, 1, 2, 3, 4):
            n, b = diff_seq(kind, L)
            paths += n
            bad += b
    for L in (0, 1, 2) if quick else (0, 1, 2, 3):
        n, b = diff_pat(L)
        paths += n
        bad += b
    print(f"psv selftest: {paths} path models compared with the real bytes/str/re operations, {len(bad)} mismatches, {time.time() - t:.1f}s")
    for b in bad[:10]:
        print("  MISMATCH", b)
    return 1 if bad else 0


if __name__ == "__main__":
    sys.exit(main())
