"""C12 — cmdline/environ/exe/cwd and extended name() decode what the kernel exposes.

Real code executed: psutil.Process.cmdline/environ/exe/cwd/name, _pslinux.Process.cmdline/environ/exe/cwd/_readlink/name,
_pslinux.readlink, _common.parse_environ_block/path_exists_strict, wrap_exceptions, _raise_if_zombie.
"""
import errno

import z3

from psv import seq, simk, sym
from psv.run import harness
from psv.seq import SymSeq
from psv.simk import psutil

META = dict(
    assumptions=[
        "the kernel renders an untouched argv as NUL-terminated arguments; a process that overwrote its title exposes one blob without inner NULs (optionally with one trailing NUL)",
        "a single argument containing a space is indistinguishable from an overwritten title: splitting it on spaces is the documented heuristic and is not held against the code",
        "symbolic characters are ASCII 0x01..0x7f (they pass through the text codec); non-UTF-8 bytes are concrete witnesses decoded by the real codec",
        "existence / regular-file / executable answers of the OS for the cleaned-up paths are symbolic booleans",
    ],
    stubs=["open() of /proc/<pid>/{cmdline,environ,stat}", "os.readlink of /proc/<pid>/{exe,cwd}", "os.stat / os.access answering symbolically for link targets", "os.path.basename/isabs re-implemented for symbolic strings (differentially tested at setup)"],
    bounds=dict(quick=dict(argv="<= 3 arguments x <= 2 symbolic chars", environ="<= 2 entries, key/value <= 2 chars", link_target="<= 11 chars (+ ' (deleted)', + NUL tail)", comm_argv0="comm 15 chars, basename <= 17 chars"),
                thorough=dict(argv="<= 3 arguments x <= 4 chars", environ="<= 3 entries, <= 3 chars", link_target="<= 12 chars", comm_argv0="comm 15..16 chars, basename <= 20 chars")),
    outside=["cmdline blobs with inner NULs but no trailing NUL", "longer strings", "non-ASCII symbolic characters"],
    labels=["argv-exact", "single-exact", "empty-argv", "zombie-empty-cmdline", "title-blob", "environ-map", "stops-at-empty-entry", "link-target", "withheld-gives-empty", "exe-fallback", "exe-cached", "name-extension"],
)


def T(a, b):
    """term-level equality of two (possibly symbolic) strings"""
    if isinstance(a, SymSeq) or isinstance(b, SymSeq):
        if not isinstance(a, (str, SymSeq)) or not isinstance(b, (str, SymSeq)):
            return False
        return sym.SymBool(SymSeq.of(a).eq_term(b))
    return a == b


ODD_COMMS = ["cat", "x) y", "a) Zed", ") Z", "Z) S (Z"]      # names that imitate the end of the name field and a state letter after it


def base(ctx, zombie=False, comm="cat"):
    k = simk.Kernel(ctx)
    simk.system_files(k)
    simk.full_process(k, 77, zombie=zombie, comm=comm)
    return k


ARGV_Q = [[], [0], [2], [1, 0], [0, 0], [2, 2], [0, 1, 0], [2, 1, 2]]
ARGV_T = ARGV_Q + [[4], [6], [3, 3], [5, 5], [0, 0, 0], [4, 0, 4], [1, 1, 1], [3, 2, 3], [4, 4, 4], [1, 0, 1, 0]]


@harness("C12.cmdline", quick=[dict(lens=l) for l in ARGV_Q], thorough=[dict(lens=l) for l in ARGV_T])
def cmdline(ctx, lens):
    """argv rendered as the kernel does for an untouched process: every argument NUL-terminated"""
    k = base(ctx)
    argv = [seq.fresh(ctx, f"a{i}", n, "str", lo=1, hi=0x7F) for i, n in enumerate(lens)]
    blob = ""
    for a in argv:
        blob = blob + a + "\x00"
    k.files["/proc/77/cmdline"] = blob
    with k.installed():
        got = ctx.guard("cmdline-no-exception", psutil.Process(77).cmdline)
    ctx.observe("cmdline", got)
    if len(argv) >= 2:
        ctx.prove(len(got) == len(argv) and ctx.all([T(g, a) for g, a in zip(got, argv)]), "argv-exact")
    elif len(argv) == 1:
        a = argv[0]
        if " " in a:      # (forks) documented heuristic: indistinguishable from an overwritten title
            ctx.prove(T(" ".join(got) if all(isinstance(g, str) for g in got) else SymSeq.of(" ").join(got), a), "single-with-space-joins-back")
        else:
            ctx.prove(len(got) == 1 and T(got[0], a), "single-exact")
    else:
        ctx.prove(got == [], "empty-argv")


WITNESS_ARGV = [[b"\xff\xfe", b"caf\xc3\xa9"], [b"a b", b"", b"c"], [b"\xe2\x82"], [b"x" * 5000, b"y"], [b"", b""], [b"=", b"-=-"]]


@harness("C12.cmdline_witness", quick=[dict(i=i) for i in range(len(WITNESS_ARGV))])
def cmdline_witness(ctx, i):
    """concrete witnesses: non-UTF-8 bytes, empty arguments, very long arguments (decoded by the real codec)"""
    from psv.simk import _common

    k = base(ctx)
    argv = WITNESS_ARGV[i]
    k.files["/proc/77/cmdline"] = b"".join(a + b"\x00" for a in argv)
    with k.installed():
        got = ctx.guard("cmdline-no-exception", psutil.Process(77).cmdline)
    want = [a.decode(_common.ENCODING, _common.ENCODING_ERRS) for a in argv]
    if len(argv) == 1 and b" " in argv[0]:
        want = want[0].split(" ")
    ctx.prove(got == want, "argv-exact", detail=f"{got!r} vs {want!r}")
    env = b"".join(a + b"=" + a + b"\x00" for a in argv if a and b"=" not in a) + b"\x00junk=1\x00"
    k.files["/proc/77/environ"] = env
    with k.installed():
        e = ctx.guard("environ-no-exception", psutil.Process(77).environ)
    wante = {a.decode(_common.ENCODING, _common.ENCODING_ERRS): a.decode(_common.ENCODING, _common.ENCODING_ERRS) for a in argv if a and b"=" not in a}
    ctx.prove(e == wante, "environ-map", detail=f"{len(e)} entries")


@harness("C12.title", quick=[dict(n=n, trailing_nul=t) for n in (1, 3, 5) for t in (False, True)], thorough=[dict(n=n, trailing_nul=t) for n in (1, 2, 3, 5, 7, 9, 12) for t in (False, True)])
def title(ctx, n, trailing_nul):
    """a process that overwrote its title: one blob without NUL separators -> split on spaces"""
    k = base(ctx)
    blob = seq.fresh(ctx, "t", n, "str", lo=1, hi=0x7F)
    k.files["/proc/77/cmdline"] = blob + ("\x00" if trailing_nul else "")
    with k.installed():
        got = ctx.guard("cmdline-no-exception", psutil.Process(77).cmdline)
    ctx.observe("title", got)
    body = blob
    if not trailing_nul and isinstance(blob, SymSeq) and blob.endswith(" "):
        body = blob[:-1]       # a trailing separator is dropped, as for the NUL form
    elif not trailing_nul and isinstance(blob, str) and blob.endswith(" "):
        body = blob[:-1]
    want = body.split(" ") if len(body) else [body]
    ctx.prove(len(got) == len(want) and ctx.all([T(g, w) for g, w in zip(got, want)]), "title-blob")


@harness("C12.zombie_cmdline")
def zombie_cmdline(ctx):
    """a zombie's empty cmdline raises ZombieProcess -- also when the process turned into a zombie in the middle of a oneshot() block
    whose cache was filled (name(), status(), ppid() ...) while it was still running; a live process with an empty cmdline gives []"""
    comm = ctx.choice("process_name", ODD_COMMS)
    k = base(ctx, zombie=False, comm=comm)
    inside = ctx.flag("inside_oneshot_block")
    warm = ctx.choice("asked_before", [None, "status", "name", "ppid", "cpu_times"]) if inside else None
    zombie_now = ctx.flag("zombie_now")
    import contextlib

    with k.installed(), contextlib.ExitStack() as stack:
        p = psutil.Process(77)
        if inside:
            stack.enter_context(p.oneshot())
            if warm:
                getattr(p, warm)()
        if zombie_now:        # the process exits and is not reaped: state Z, cmdline/environ/smaps empty, exe/cwd links gone
            simk.full_process(k, 77, zombie=True, comm=comm)
        else:
            k.files["/proc/77/cmdline"] = ""          # alive, but it wiped its own command line
        try:
            r, exc = p.cmdline(), None
        except psutil.ZombieProcess as e:
            r, exc = None, e
    if zombie_now:
        ctx.prove(exc is not None and exc.pid == 77, "zombie-empty-cmdline", detail=f"name {comm!r}, inside oneshot={inside}, asked before: {warm}: cmdline() -> {r!r}")
    else:
        ctx.prove(exc is None and r == [], "live-empty-cmdline", detail=f"name {comm!r}: {exc!r} {r!r}")


ENV_Q = [[], [(1, 1, True)], [(2, 2, True), (2, 1, True)], [(1, 2, False), (1, 0, True)], [(0, 2, True), (2, 0, True)], [(1, 1, True), (1, 1, True)]]
ENV_T = ENV_Q + [[(2, 2, True), (2, 2, True), (2, 1, True)], [(3, 3, True), (1, 3, False), (3, 0, True)], [(1, 1, True), (1, 1, True), (1, 1, True)]]


@harness("C12.environ", quick=[dict(shapes=s) for s in ENV_Q], thorough=[dict(shapes=s) for s in ENV_T])
def environ(ctx, shapes):
    """shapes: list of (keylen, vallen, has_eq); the block ends with an empty entry followed by garbage"""
    k = base(ctx)
    block, ents = "", []
    for i, (kl, vl, has_eq) in enumerate(shapes):
        key = seq.fresh(ctx, f"k{i}", kl, "str", lo=1, hi=0x7F, exclude=(ord("="),))
        val = seq.fresh(ctx, f"v{i}", vl, "str", lo=1, hi=0x7F)
        ents.append((key, val, has_eq))
        block = block + key + ("=" if has_eq else "") + val + "\x00"
    block = block + "\x00" + "GARBAGE=1\x00"
    k.files["/proc/77/environ"] = block
    with k.installed():
        got = ctx.guard("environ-no-exception", psutil.Process(77).environ)
    ctx.observe("environ", list(got.items()))
    exp = []
    for key, val, has_eq in ents:
        if not has_eq:
            whole = key + val          # no '=' in key (excluded) but val may contain one
            i = whole.find("=") if len(whole) else -1
            if i > 0:
                key, val, has_eq = whole[:i], whole[i + 1:], True
            else:
                continue
        if len(key) == 0:
            continue
        exp = [(k2, v2) for (k2, v2) in exp if not bool(T(k2, key))] + [(key, val)]
    items = list(got.items())
    ok = [len(got) == len(exp)]
    for (k2, v2) in exp:
        hit = [gv for gk, gv in items if bool(T(gk, k2))]
        ok.append(len(hit) == 1 and T(hit[0], v2))
    ctx.prove(ctx.all(ok), "environ-map")
    ctx.prove("GARBAGE" not in [g for g in got if isinstance(g, str)], "stops-at-empty-entry")


@harness("C12.link", quick=[dict(which=w, n=n, tail=t) for w in ("cwd", "exe") for n in (0, 2, 11) for t in (False, True)],
         thorough=[dict(which=w, n=n, tail=t) for w in ("cwd", "exe") for n in (0, 1, 2, 9, 10, 11, 12, 16, 24) for t in (False, True)])
def link(ctx, which, n, tail):
    """exe()/cwd(): the link target cut at the first NUL, minus a stale ' (deleted)' suffix"""
    k = base(ctx)
    b = seq.fresh(ctx, "p", n, "str", lo=1, hi=0x7F)
    target = "/" + b
    deleted = ctx.flag("has_deleted_suffix")
    if deleted:
        target = target + " (deleted)"
    raw = target + ("\x00" + "junk (deleted)" if tail else "")
    suffixed_exists = ctx.flag("suffixed_path_exists")
    k.exists_oracle = lambda p: suffixed_exists
    k.links[f"/proc/77/{which}"] = raw
    with k.installed():
        p = psutil.Process(77)
        got = ctx.guard("link-no-exception", getattr(p, which))
    ctx.observe("link", got)
    want = target
    t = SymSeq.of(target)
    if len(t) >= 10 and t.endswith(" (deleted)") and not suffixed_exists:
        want = target[:-10]
    ctx.prove(T(got, want), "link-target")


@harness("C12.withheld", quick=[dict(which=w, err=e) for w in ("cwd", "exe") for e in ("ENOENT", "ESRCH")])
def withheld(ctx, which, err):
    """the kernel withholds the link (ENOENT/ESRCH) for a live process: '' ; exe() then falls back to cmdline()[0]"""
    k = base(ctx, comm=ctx.choice("process_name", ODD_COMMS))
    k.links[f"/proc/77/{which}"] = simk.oserr(getattr(errno, err), f"/proc/77/{which}")
    a0 = seq.fresh(ctx, "a0", 3, "str", lo=1, hi=0x7F)
    k.files["/proc/77/cmdline"] = a0 + "\x00-x\x00"
    isfile, isexec = ctx.flag("argv0_is_regular_file"), ctx.flag("argv0_is_executable")
    k.exists_oracle = lambda p: isfile
    k.access_oracle = lambda p: isexec
    with k.installed():
        p = psutil.Process(77)
        got = ctx.guard("withheld-no-exception", getattr(p, which))
        n1 = k.naccess_total
        again = getattr(p, which)()
        n2 = k.naccess_total
    ctx.observe("withheld", got)
    if which == "cwd":
        ctx.prove(got == "", "withheld-gives-empty")
        return
    absolute = bool(sym.SymBool(z3.BoolVal(True))) and SymSeq.of(a0).startswith("/")
    want = a0 if (absolute and isfile and isexec) else ""
    ctx.prove(T(got, want), "exe-fallback")
    ctx.prove(T(again, got) and n2 == n1, "exe-cached")


@harness("C12.name", quick=[dict(clen=15, blen=b) for b in (14, 15, 17)] + [dict(clen=14, blen=16)], thorough=[dict(clen=c, blen=b) for c in (13, 14, 15) for b in (12, 13, 14, 15, 16, 20, 30)])
def name(ctx, clen, blen):
    """name(): the kernel's name, except that a name truncated at 15 bytes is replaced by basename(cmdline()[0]) when that starts with it"""
    k = base(ctx)
    comm = seq.fresh(ctx, "comm", clen, "bytes", lo=1, hi=0x7F, exclude=(ord(")"), ord("("), ord("/")))
    bname = seq.fresh(ctx, "bn", blen, "str", lo=1, hi=0x7F, exclude=(ord("/"), 32))
    k.files["/proc/77/stat"] = simk.stat_record(k, 77, comm, b"S", {4: 1, 22: 5000})
    k.files["/proc/77/cmdline"] = "/usr/bin/" + bname + "\x00-v\x00"
    with k.installed():
        got = ctx.guard("name-no-exception", psutil.Process(77).name)
    ctx.observe("name", got)
    cstr = SymSeq(comm.items, "str") if isinstance(comm, SymSeq) else comm.decode()
    ext = clen >= 15 and bool(sym.SymBool(SymSeq.of(bname)._match_at(0, SymSeq.of(cstr).items)))
    ctx.prove(T(got, bname if ext else cstr), "name-extension")


NAME_WITNESSES = [  # (kernel name bytes, cmdline[0]): names ending in bytes that are not valid UTF-8, 15-byte truncation, near-miss prefixes
    (b"abcdefghijklmn\xe9", "/opt/abcdefghijklmnop-helper"), (b"backup-runner\xff\xfe", "/usr/bin/backup-runner-daily"), (b"abcdefghijklmn\xe9", "/opt/abcdefghijklmn\udce9-more"),
    (b"gnome-keyring-d", "/usr/bin/gnome-keyring-daemon"), (b"gnome-keyring-d", "/usr/bin/gnome-keyring"), (b"fifteen-chars-x", "relative-fifteen-chars-x-long"), (b"short", "/usr/bin/shorter"),
]


@harness("C12.name_witness", quick=[dict(i=i) for i in range(len(NAME_WITNESSES))])
def name_witness(ctx, i):
    """name() on concrete witnesses that the symbolic (ASCII) harness cannot produce: kernel names with non-UTF-8 bytes (decoded with
    surrogateescape), checked against the statement's rule; asked twice, with the argument vector replaced in between (a re-exec or a
    rewritten title keeps the 15-byte kernel name): the second answer follows the new argument vector"""
    import os as _os

    k = base(ctx)
    comm, argv0 = NAME_WITNESSES[i]
    k.files["/proc/77/stat"] = simk.stat_record(k, 77, comm, b"S", {4: 1, 22: 5000})
    k.files["/proc/77/cmdline"] = (argv0 + "\x00-v\x00").encode("utf8", "surrogateescape")
    other = "/usr/libexec/" + comm.decode("utf8", "surrogateescape") + "-other-helper"

    def want(a0):
        cs = comm.decode("utf8", "surrogateescape")
        bn = _os.path.basename(a0)
        return bn if len(cs) >= 15 and bn.startswith(cs) else cs

    with k.installed():
        p = psutil.Process(77)
        first = ctx.guard("name-no-exception", p.name)
        k.files["/proc/77/cmdline"] = (other + "\x00").encode("utf8", "surrogateescape")
        second = ctx.guard("name-no-exception", p.name)
    ctx.prove(first == want(argv0), "name-extension", detail=f"{comm!r} + {argv0!r}: {first!r}, expected {want(argv0)!r}")
    ctx.prove(second == want(other), "name-follows-cmdline", detail=f"after the argument vector changed to {other!r}: {second!r}, expected {want(other)!r}")
