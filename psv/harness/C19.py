"""C19 — Sensors, battery, CPU frequency/count, boot time mirror the kernel's tables.

Real code executed: psutil.sensors_temperatures/sensors_fans/sensors_battery/cpu_freq/cpu_count/cpu_stats/boot_time and their
_pslinux counterparts (+ _cpu_get_cpuinfo_freq, cpu_count_logical, cpu_count_cores), _common.cat/bcat.
"""
import fractions

from psv import simk
from psv.run import harness
from psv.simk import _common, psutil

F = fractions.Fraction

META = dict(
    assumptions=[
        "sysfs attribute files hold one decimal integer and a newline (milli-degrees, RPM, micro-units, kHz); readings are non-negative in the symbolic runs, a negative reading is a concrete witness",
        "a threshold of exactly 0 counts as missing in the back-fill rule (the front end tests truthiness; drivers report 0 for an unset threshold)",
        "floats are exact reals; int() truncates",
        "text->number boundary: digit placeholders, int/float shadowed in the psutil modules' globals",
        "PYTHONHASHSEED=0 (the thermal-zone code iterates a set of trip-point names)",
    ],
    stubs=["glob.glob / os.listdir / open() over a simulated /sys tree and /proc/cpuinfo, /proc/stat", "os.sysconf"],
    bounds=dict(quick=dict(hwmon="1..2 chips x 1..2 sensors, one sensor symbolic (presence of _max/_crit/_label/name, numeric or not, input readable or not, either nesting)", thermal="0..2 trip points",
                           battery="one battery, both file-name families, AC0/online absent/0/1, 5 status values, full/power pinned to 3 values each", cpus="1..3"),
                thorough=dict(hwmon="1..3 chips x 1..3 sensors", thermal="0..3 trip points", battery="as quick, 5 pinned values each", cpus="1..4")),
    outside=["the sysfs variant of cpu_freq() is checked on a second copy of the package imported under an alias with the two cpufreq paths reported present (C19.cpu_freq_sysfs)", "sensors exposed only under /sys/devices/platform/coretemp.* and not under /sys/class/hwmon (not one of the statement's directories; observed: such entries are never reported, see DESIGN 7)", "several batteries beyond name ordering", "negative readings as symbolic values"],
    labels=["hwmon-entries", "hwmon-values", "thermal-current", "thermal-high", "thermal-critical", "fans", "battery-percent", "battery-plugged", "battery-secsleft", "cpu_freq", "cpu_count", "cpu_stats", "boot_time"],
)


def _c(ctx, milli, fahrenheit):
    """the statement's arithmetic: m degC / 1000, F = C*9/5+32"""
    c = ctx.div(milli, 1000)
    return c * 9 / 5 + 32 if fahrenheit else c


@harness("C19.hwmon", quick=[dict(nchip=1, nsens=1, coretemp=False), dict(nchip=2, nsens=2, coretemp=False), dict(nchip=1, nsens=1, coretemp=True)],
         thorough=[dict(nchip=c, nsens=s, coretemp=False) for c in (1, 2, 3) for s in (1, 2, 3)] + [dict(nchip=2, nsens=1, coretemp=True)])
def hwmon(ctx, nchip, nsens, coretemp):
    k = simk.Kernel(ctx)
    fahrenheit = ctx.flag("fahrenheit")
    expect = {}
    for c in range(nchip):
        sym_chip = c == 0
        nested = ctx.flag("nested") if sym_chip else (c % 2 == 1)
        root = f"/sys/class/hwmon/hwmon{c}" + ("/device" if nested else "")
        has_name = ctx.flag("has_name") if sym_chip else True
        uname = f"chip{c}"
        if has_name:
            k.files[f"{root}/name"] = uname + "\n"
        for s in range(1, nsens + 1):
            symb = sym_chip and s == 1
            base = f"{root}/temp{s}"
            inp = ctx.choice("input", ["ok", "missing", "garbage", "eio", "eio-on-read"]) if symb else "ok"
            cur = ctx.int(f"cur{c}_{s}", 0, 200000) if symb else 40000 + 1000 * s + c
            if inp == "ok":
                k.files[base + "_input"] = k.num(cur) + b"\n"
            elif inp == "garbage":
                k.files[base + "_input"] = b"N/A\n"
            elif inp == "eio":
                k.files[base + "_input"] = simk.oserr(5, base + "_input")
            elif inp == "eio-on-read":          # the attribute exists, reading it fails (ENODATA: what a sensor without data answers)
                k.files[base + "_input"] = simk.fails_on_read(k, base + "_input", 61)
            thr = {}
            for what in ("max", "crit"):
                st = ctx.choice(f"{what}_state", ["present", "absent", "garbage", "unreadable"]) if symb else ("present" if (s + c) % 2 else "absent")
                v = ctx.int(f"{what}{c}_{s}", 0, 200000) if symb else 80000 + s
                if st == "present":
                    k.files[f"{base}_{what}"] = k.num(v) + b"\n"
                    thr[what] = v
                elif st == "garbage":
                    k.files[f"{base}_{what}"] = b"\n"
                    thr[what] = None
                elif st == "unreadable":
                    k.files[f"{base}_{what}"] = simk.fails_on_read(k, f"{base}_{what}", 61)
                    thr[what] = None
                else:
                    thr[what] = None
            has_label = ctx.flag("has_label") if symb else (s % 2 == 0)
            if has_label:
                k.files[base + "_label"] = f"Core {s}\n"
            elif symb and ctx.flag("label_unreadable"):
                k.files[base + "_label"] = simk.fails_on_read(k, base + "_label", 61)
            if coretemp and c == 0 and not nested:
                # the same sensor is also reachable through the platform device: it must not be reported twice
                for n_ in [n for n in k.files if n.startswith(base + "_")]:
                    k.files[n_.replace("/sys/class/hwmon/", "/sys/devices/platform/coretemp.0/hwmon/")] = k.files[n_]
            if inp == "missing" and not any(n.startswith(base + "_") for n in k.files):
                continue            # nothing of this sensor is exposed at all
            if inp == "ok" and has_name:
                expect.setdefault(uname, []).append((f"Core {s}" if has_label else "", cur, thr["max"], thr["crit"]))
    with k.installed():
        r = psutil.sensors_temperatures(fahrenheit=fahrenheit)
    ctx.observe("temps", {n: [tuple(e) for e in v] for n, v in r.items()})
    ctx.prove(set(r) == set(expect) and all(len(r[n]) == len(expect[n]) for n in expect), "hwmon-entries", detail=f"{sorted(r)} vs {sorted(expect)}")
    if set(r) != set(expect):
        return
    for n, ents in expect.items():
        for got, (label, cur, hi, cr) in zip(r[n], ents):
            ok = [got.label == label, ctx.eq(got.current, _c(ctx, cur, fahrenheit))]
            # back-fill: a missing threshold is filled from the other one.  A threshold file holding exactly 0 may be
            # taken either as a reading of 0 or as "unset" (the statement does not say; drivers report 0 for unset).
            for g, own, other in ((got.high, hi, cr), (got.critical, cr, hi)):
                if own is None:
                    if other is None:
                        ok.append(g is None)
                    else:
                        ok.append(g is not None and ctx.any([ctx.eq(g, _c(ctx, other, fahrenheit)), ctx.all([ctx.eq(other, 0), True])]) if g is not None else ctx.eq(other, 0))
                else:
                    alts = [ctx.eq(g, _c(ctx, own, fahrenheit))] if g is not None else []
                    if g is not None and other is not None:
                        alts.append(ctx.all([ctx.eq(own, 0), ctx.eq(g, _c(ctx, other, fahrenheit))]))
                    ok.append(ctx.any(alts) if alts else False)
            ctx.prove(ctx.all(ok), "hwmon-values", detail=f"{n} {label}")


@harness("C19.thermal", quick=[dict(ntrip=n) for n in (0, 1, 2)] + [dict(ntrip=2, first=f) for f in (9, 99)], thorough=[dict(ntrip=n) for n in (0, 1, 2, 3)] + [dict(ntrip=3, first=f) for f in (8, 9, 99)])
def thermal(ctx, ntrip, first=0):
    """fallback to /sys/class/thermal when hwmon exposes nothing; first: number of the first trip point (zones with a dozen trip
    points exist: trip_point_10_temp ...)"""
    k = simk.Kernel(ctx)
    base = "/sys/class/thermal/thermal_zone0"
    cur = ctx.int("cur", 0, 150000)
    k.files[base + "/temp"] = k.num(cur) + b"\n"
    k.files[base + "/type"] = "acpitz\n"
    k.dirs[base] = []
    k.files["/sys/class/thermal/thermal_zone1/type"] = "broken\n"        # zone without a readable temp file: skipped
    trips = []
    for i in range(first, first + ntrip):
        ty = ctx.choice(f"type{i}", ["critical", "high", "passive"])
        v = ctx.int(f"trip{i}", 0, 150000)
        k.files[f"{base}/trip_point_{i}_type"] = ty + "\n"
        k.files[f"{base}/trip_point_{i}_temp"] = k.num(v) + b"\n"
        k.files[f"{base}/trip_point_{i}_hyst"] = b"0\n"
        trips.append((ty, v))
    with k.installed():
        r = psutil.sensors_temperatures()
    ctx.observe("thermal", {n: [tuple(e) for e in v] for n, v in r.items()})
    ctx.prove(list(r) == ["acpitz"] and len(r["acpitz"]) == 1, "thermal-one-entry")
    e = r["acpitz"][0]
    ctx.prove(ctx.eq(e.current, ctx.div(cur, 1000)), "thermal-current")
    crit = [v for ty, v in trips if ty == "critical"]
    high = [v for ty, v in trips if ty == "high"]
    if len(crit) <= 1 and len(high) <= 1:       # with several trip points of one type the statement does not say which wins
        c = crit[0] if crit else None
        h = high[0] if high else None

        def present(x):
            return x is not None and bool(x != 0)
        want_h = h if present(h) else (c if present(c) else h)
        want_c = c if present(c) else (h if present(h) else c)
        ctx.prove((e.high is None) == (want_h is None) and (want_h is None or ctx.eq(e.high, ctx.div(want_h, 1000))), "thermal-high", detail=f"trips={trips}")
        ctx.prove((e.critical is None) == (want_c is None) and (want_c is None or ctx.eq(e.critical, ctx.div(want_c, 1000))), "thermal-critical", detail=f"trips={trips}")


@harness("C19.fans", quick=[dict(nested=n) for n in (False, True)])
def fans(ctx, nested):
    k = simk.Kernel(ctx)
    root = "/sys/class/hwmon/hwmon0" + ("/device" if nested else "")
    k.files[root + "/name"] = "dell_smm\n"
    rpm = [ctx.int(f"rpm{i}", 0, 10**6) for i in (1, 2)]
    k.files[root + "/fan1_input"] = k.num(rpm[0]) + b"\n"
    lab1 = ctx.choice("fan1_label", ["ok", "unreadable"])
    k.files[root + "/fan1_label"] = "cpu fan\n" if lab1 == "ok" else simk.fails_on_read(k, root + "/fan1_label", 61)
    state2 = ctx.choice("fan2", ["ok", "unreadable", "unreadable-on-read", "absent"])
    if state2 == "ok":
        k.files[root + "/fan2_input"] = k.num(rpm[1]) + b"\n"
    elif state2 == "unreadable":
        k.files[root + "/fan2_input"] = simk.oserr(5, root + "/fan2_input")
        k.files[root + "/fan2_label"] = "gpu\n"
    elif state2 == "unreadable-on-read":
        k.files[root + "/fan2_input"] = simk.fails_on_read(k, root + "/fan2_input", 5)
        k.files[root + "/fan2_label"] = "gpu\n"
    none_at_all = ctx.flag("no_fans")
    if none_at_all:
        for n in list(k.files):
            if "/fan" in n:
                del k.files[n]
    with k.installed():
        r = psutil.sensors_fans()
    ctx.observe("fans", {n: [tuple(e) for e in v] for n, v in r.items()})
    if none_at_all:
        ctx.prove(r == {}, "fans-empty")
        return
    want = [("cpu fan" if lab1 == "ok" else "", rpm[0])] + ([("", rpm[1])] if state2 == "ok" else [])
    ctx.prove(list(r) == ["dell_smm"] and len(r["dell_smm"]) == len(want) and ctx.all([g.label == l and ctx.eq(g.current, v) for g, (l, v) in zip(r["dell_smm"], want)]), "fans")


PINS_Q, PINS_T = (0, 1000, 57000000), (0, 1, 1000, 57000000, 10**8)


@harness("C19.battery", quick=[dict(full_pin=f, power_pin=p) for f in PINS_Q for p in (0, 7, 12000000, -7)], thorough=[dict(full_pin=f, power_pin=p) for f in PINS_T for p in (0, 1, 7, 12000000, 10**8, -7, -12000000)])
def battery(ctx, full_pin, power_pin):
    k = simk.Kernel(ctx)
    bat = ctx.choice("batname", ["BAT0", "BAT1", "cw2015-battery"])
    root = f"/sys/class/power_supply/{bat}"
    k.dirs["/sys/class/power_supply"] = [bat, "AC0", "hidpp_mouse"]
    use_charge = ctx.flag("charge_names")            # energy_* vs charge_* file names
    now = ctx.int("now", 0, 10**8)
    k.files[root + ("/charge_now" if use_charge else "/energy_now")] = k.num(now) + b"\n"
    if use_charge and ctx.flag("energy_now_exists_but_unreadable"):
        # a fuel gauge that exposes energy_now without being able to answer it (ENODEV): the charge_* file is the source
        k.files[root + "/energy_now"] = simk.fails_on_read(k, root + "/energy_now", 19)
    k.files[root + ("/charge_full" if use_charge else "/energy_full")] = k.num(full_pin) + b"\n"
    k.files[root + ("/current_now" if use_charge else "/power_now")] = k.num(power_pin) + b"\n"
    online = ctx.choice("online", [None, 0, 1])
    acname = ctx.choice("acname", ["AC0", "AC"])
    if online is not None:
        k.files[f"/sys/class/power_supply/{acname}/online"] = str(online).encode() + b"\n"
    status = ctx.choice("status", ["Discharging", "Charging", "Full", "Unknown", "Not charging", None])
    if status is not None:
        k.files[root + "/status"] = status + "\n"
    with k.installed():
        r = psutil.sensors_battery()
    ctx.observe("battery", tuple(r) if r is not None else None)
    ctx.prove(r is not None, "battery-present")
    plugged = (online == 1) if online is not None else ({"Discharging": False, "Charging": True, "Full": True}.get(status))
    ctx.prove(r.power_plugged == plugged, "battery-plugged")
    if full_pin:
        ctx.prove(ctx.eq(r.percent, ctx.div(100 * now, full_pin)), "battery-percent")
    else:
        ctx.prove(ctx.eq(r.percent, 0), "battery-percent-zero-full")
    if plugged:
        ctx.prove(r.secsleft == psutil.POWER_TIME_UNLIMITED, "battery-secs-unlimited")
    elif power_pin == 0:
        ctx.prove(r.secsleft == psutil.POWER_TIME_UNKNOWN, "battery-secs-unknown")
    else:
        ctx.prove(ctx.eq(r.secsleft, ctx.trunc(ctx.div(now * 3600, power_pin))), "battery-secsleft")


@harness("C19.battery_tte")
def battery_tte(ctx):
    """a battery that exposes neither energy/charge nor power/current files but `capacity` (percent) and `time_to_empty_now` (minutes,
    -1 when unknown): percent = capacity, seconds left = minutes*60, UNKNOWN for a negative value, UNLIMITED on mains"""
    k = simk.Kernel(ctx)
    root = "/sys/class/power_supply/BAT0"
    k.dirs["/sys/class/power_supply"] = ["BAT0"]
    cap = ctx.int("capacity", 0, 100)
    k.files[root + "/capacity"] = k.num(cap) + b"\n"
    tte = ctx.choice("time_to_empty_now", [None, "-1", "0", "90", "sym"])
    mins = ctx.int("minutes", 0, 10**5)
    if tte is not None:
        k.files[root + "/time_to_empty_now"] = (k.num(mins) if tte == "sym" else tte.encode()) + b"\n"
    status = ctx.choice("status", ["Discharging", "Charging", None])
    if status is not None:
        k.files[root + "/status"] = status + "\n"
    with k.installed():
        r = ctx.guard("battery-time-to-empty", psutil.sensors_battery)
    ctx.prove(r is not None and ctx.eq(r.percent, cap), "battery-percent", detail=f"{r}")
    if status == "Charging":
        ctx.prove(r.secsleft == psutil.POWER_TIME_UNLIMITED, "battery-secs-unlimited")
    elif tte in (None, "-1"):
        ctx.prove(r.secsleft == psutil.POWER_TIME_UNKNOWN, "battery-secs-unknown", detail=f"time_to_empty_now={tte}: {r.secsleft}")
    else:
        ctx.prove(ctx.eq(r.secsleft, (mins if tte == "sym" else int(tte)) * 60), "battery-time-to-empty", detail=f"time_to_empty_now={tte}: {r.secsleft}")


@harness("C19.boot_time_history")
def boot_time_history(ctx):
    """boot_time() mirrors the kernel's btime line at EVERY call: asked again after the line changed (a clock step, by any amount -- one
    second included), it reports the new value"""
    k = simk.Kernel(ctx)
    b = [ctx.int("btime0", 0, 2**40), ctx.int("btime1", 0, 2**40), ctx.int("btime2", 0, 2**40)]
    ctx.assume(ctx.any([ctx.eq(b[1], b[0] + 1), ctx.eq(b[1], b[0] - 1), ctx.eq(b[1], b[0]), ctx.eq(b[1], b[0] + 3600), b[1] > b[0] + 10**6]))
    cur = {"i": 0}
    k.files["/proc/stat"] = lambda: b"cpu  1 2 3 4 5 6 7 8 9 10\nintr 1\nctxt 2\nbtime " + k.num(b[cur["i"]]) + b"\nprocesses 3\n"
    got = []
    with k.installed():
        for i in range(3):
            cur["i"] = i
            got.append(ctx.guard("boot_time", psutil.boot_time))
    ctx.prove(ctx.all([ctx.eq(g, x) for g, x in zip(got, b)]), "boot_time", detail=f"{got}")


@harness("C19.no_battery")
def no_battery(ctx):
    k = simk.Kernel(ctx)
    which = ctx.choice("dir", ["empty", "only-ac", "bat-without-files"])
    k.dirs["/sys/class/power_supply"] = {"empty": [], "only-ac": ["AC0"], "bat-without-files": ["BAT0"]}[which]
    with k.installed():
        r = psutil.sensors_battery()
        t = psutil.sensors_temperatures()
        f = psutil.sensors_fans()
    ctx.prove(r is None and t == {} and f == {}, "nothing-exposed-gives-None-or-empty")


@harness("C19.cpu_topology", quick=[dict(ncores=n) for n in (1, 2, 3)], thorough=[dict(ncores=n) for n in (1, 2, 3, 4, 5)])
def cpu_topology(ctx, ncores):
    """cpu_count(logical=False) from the kernel's topology files: the number of distinct cores, whatever the number of hardware
    threads each core has online (hybrid CPUs mix 1- and 2-thread cores; a thread can be offline) and however the kernel spells the
    sibling list ("0,4" or "0-1"); either the current or the deprecated file name"""
    k = simk.Kernel(ctx)
    fname = ctx.choice("file", ["core_cpus_list", "thread_siblings_list"])
    cpu = 0
    for c in range(ncores):
        nthreads = ctx.choice(f"threads_of_core{c}", [1, 2])
        ids = list(range(cpu, cpu + nthreads))
        cpu += nthreads
        text = (f"{ids[0]}-{ids[-1]}" if ctx.flag(f"range_spelling{c}") else ",".join(map(str, ids))) if nthreads > 1 else str(ids[0])
        for i in ids:
            k.files[f"/sys/devices/system/cpu/cpu{i}/topology/{fname}"] = text + "\n"
    k.files["/proc/cpuinfo"] = "processor\t: 0\nphysical id\t: 0\ncpu cores\t: 77\n\n"       # the fallback source: not consulted when the topology is there
    with k.installed():
        got = ctx.guard("cpu_count", psutil.cpu_count, logical=False)
    ctx.prove(got == ncores, "cpu_count", detail=f"{ncores} cores with {cpu} hardware threads online: cpu_count(logical=False) -> {got}")


@harness("C19.cpu", quick=[dict(ncpu=n) for n in (1, 3)], thorough=[dict(ncpu=n) for n in (1, 2, 3, 4)])
def cpu(ctx, ncpu):
    """cpu_freq() (the /proc/cpuinfo implementation selected at import in this sandbox), cpu_count(), cpu_stats(), boot_time()"""
    k = simk.Kernel(ctx)
    mhz = [ctx.int(f"mhz{i}", 0, 10**5) for i in range(ncpu)]
    has_mhz = ctx.flag("cpuinfo_has_mhz")
    k.files["/proc/cpuinfo"] = "".join(
        f"processor\t: {i}\nvendor_id\t: X\n" + (f"cpu MHz\t\t: {k.num(mhz[i], True, suffix='.000')}\n" if has_mhz else "") + f"physical id\t: 0\ncpu cores\t: {ncpu}\n\n" for i in range(ncpu))
    ctxt, intr, soft, btime = ctx.int("ctxt", 0, 2**64 - 1), ctx.int("intr", 0, 2**64 - 1), ctx.int("softirq", 0, 2**64 - 1), ctx.int("btime", 0, 2**40)
    order = ctx.choice("order", [0, 1])
    lines = [f"intr {k.num(intr, True)} 1 2 3\n", f"ctxt {k.num(ctxt, True)}\n", f"btime {k.num(btime, True)}\n", "processes 9\n", f"softirq {k.num(soft, True)} 5 6\n"]
    if order:
        lines.reverse()
    k.files["/proc/stat"] = "cpu  1 2 3 4 5 6 7 8 9 10\n" + "".join(f"cpu{i} 1 2 3 4 5 6 7 8 9 10\n" for i in range(ncpu)) + "".join(lines)
    sysconf_ok = ctx.flag("sysconf_ok")
    if sysconf_ok:
        k.sysconf["SC_NPROCESSORS_ONLN"] = ncpu
    else:
        k.sysconf_errors = {"SC_NPROCESSORS_ONLN"}
    with k.installed():
        fr = psutil.cpu_freq(percpu=True)
        avg = psutil.cpu_freq()
        n_log = psutil.cpu_count()
        n_core = psutil.cpu_count(logical=False)
        st = psutil.cpu_stats()
        bt = psutil.boot_time()
    ctx.observe("cpu", ([tuple(x) for x in fr], tuple(avg) if avg else avg, n_log, n_core, tuple(st), bt))
    if has_mhz:
        ctx.prove(len(fr) == ncpu and ctx.all([ctx.eq(x.current, m) for x, m in zip(fr, mhz)]), "cpu_freq")
        ctx.prove(avg is not None and ctx.eq(avg.current, ctx.div(ctx.sum(mhz), ncpu)), "cpu_freq-mean")
    else:
        ctx.prove(fr == [] and avg is None, "cpu_freq-none")
    ctx.prove(n_log == ncpu and n_core == ncpu, "cpu_count")
    ctx.prove(ctx.all([ctx.eq(st.ctx_switches, ctxt), ctx.eq(st.interrupts, intr), ctx.eq(st.soft_interrupts, soft), st.syscalls == 0]), "cpu_stats")
    ctx.prove(ctx.eq(bt, btime), "boot_time")


def _linux_with_sysfs_cpufreq():
    """a second copy of the package, imported from /repo under an alias while os.path.exists answers True for the two cpufreq
    paths: this selects the sysfs implementation of cpu_freq() (the choice is made when _pslinux is imported)"""
    import sys

    from psv import plat

    alias = "psv_linux_cpufreq"
    if alias in plat._LOADED:
        return plat._LOADED[alias][0]
    import psutil._psutil_linux as real_linux
    import psutil._psutil_posix as real_posix

    def pre(mods, lab):
        sys.modules[f"{alias}._psutil_linux"] = real_linux
        sys.modules[f"{alias}._psutil_posix"] = real_posix

    pkg, _, _ = plat.load(alias, sys.platform, (), "posix", pre, patch_os_exists={"/sys/devices/system/cpu/cpufreq/policy0", "/sys/devices/system/cpu/cpu0/cpufreq"})
    return pkg


@harness("C19.cpu_freq_sysfs", quick=[dict(ncpu=n, layout=l) for n in (1, 2) for l in ("policy", "percpu")], thorough=[dict(ncpu=n, layout=l) for n in (1, 2, 3, 4) for l in ("policy", "percpu")])
def cpu_freq_sysfs(ctx, ncpu, layout):
    """cpu_freq() from /sys/devices/system/cpu: kHz scaled to MHz, per CPU in CPU order, mean over CPUs, offline CPUs as zeroes"""
    pkg = _linux_with_sysfs_cpufreq()
    k = simk.Kernel(ctx)
    base = "/sys/devices/system/cpu"
    cur = [ctx.int(f"cur{i}", 0, 10**8) for i in range(ncpu)]
    mn = [ctx.int(f"min{i}", 0, 10**8) for i in range(ncpu)]
    mx = [ctx.int(f"max{i}", 0, 10**8) for i in range(ncpu)]
    src = ctx.choice("current_from", ["scaling_cur_freq", "cpuinfo_cur_freq", "proc_cpuinfo"])
    # per entry: "online"; "offline" (online file says 0 and the current-frequency file cannot be read); "flagged" = the i-th CPU's
    # online file says 0 but the i-th frequency entry is readable all the same -- entries are not indexed by CPU number once a CPU
    # in the middle is unplugged (cpu0, cpu2 left) or policies are shared (policy0, policy4): a readable entry is reported as read
    st = [ctx.choice(f"entry{i}", ["online", "offline", "flagged"]) if src != "proc_cpuinfo" else "online" for i in range(ncpu)]
    noff = sum(1 for x in st if x == "offline")
    # directories are listed in a non-numeric order on purpose (policy10 < policy2 lexicographically does not arise for ncpu <= 4)
    for i in range(ncpu):
        d = f"{base}/cpufreq/policy{i}" if layout == "policy" else f"{base}/cpu{i}/cpufreq"
        k.files[f"{d}/scaling_min_freq"] = k.num(mn[i]) + b"\n"
        k.files[f"{d}/scaling_max_freq"] = k.num(mx[i]) + b"\n"
        if src in ("scaling_cur_freq", "cpuinfo_cur_freq") and st[i] != "offline":
            k.files[f"{d}/{src}"] = k.num(cur[i]) + b"\n"
        k.files[f"{base}/cpu{i}/online"] = "1\n" if st[i] == "online" else "0\n"
    nrec = ncpu
    if src == "proc_cpuinfo":
        k.files["/proc/cpuinfo"] = "".join(f"processor\t: {i}\ncpu MHz\t\t: {k.num(cur[i], True, suffix='.000')}\n\n" for i in range(ncpu))
    else:
        # /proc/cpuinfo may carry "cpu MHz" records for fewer CPUs than there are frequency policies (an offline CPU has no record; a
        # policy may be shared): they are a substitute for the sysfs readings only when there is exactly one per policy
        nrec = ctx.choice("cpuinfo_mhz_records", list(range(0, ncpu + 1 - noff)))
        cm = [ctx.int(f"cpuinfo_mhz{i}", 0, 10**5) for i in range(nrec)]
        k.files["/proc/cpuinfo"] = "".join(f"processor\t: {i + noff}\ncpu MHz\t\t: {k.num(cm[i], True, suffix='.000')}\n\n" for i in range(nrec)) or "processor\t: 0\nmodel name\t: x\n\n"
    with k.installed(pkg=pkg):
        per = ctx.guard("cpu_freq-sysfs", pkg.cpu_freq, percpu=True)
        avg = ctx.guard("cpu_freq-sysfs", pkg.cpu_freq)
    ctx.observe("freq", ([tuple(x) for x in per], tuple(avg) if avg else None))
    want = []
    for i in range(ncpu):
        if st[i] == "offline":
            want.append((0, 0, 0))
        else:
            # /proc/cpuinfo is already in MHz
            c = cur[i] if src == "proc_cpuinfo" else cm[i] if nrec == ncpu else ctx.div(cur[i], 1000)
            want.append((c, ctx.div(mn[i], 1000), ctx.div(mx[i], 1000)))
    ok = [len(per) == ncpu] + [ctx.all([ctx.eq(g.current, w[0]), ctx.eq(g.min, w[1]), ctx.eq(g.max, w[2])]) for g, w in zip(per, want)]
    ctx.prove(ctx.all(ok), "cpu_freq-sysfs", detail=f"layout={layout} current from {src} entries={st}")
    if len(per) == ncpu:
        ctx.prove(avg is not None and ctx.all([ctx.eq(avg.current, ctx.div(ctx.sum([w[0] for w in want]), ncpu)), ctx.eq(avg.min, ctx.div(ctx.sum([w[1] for w in want]), ncpu)),
                                               ctx.eq(avg.max, ctx.div(ctx.sum([w[2] for w in want]), ncpu))]), "cpu_freq-sysfs-mean")
