"""C04 — pids(), pid_exists() and process_iter() give one coherent, cached process list.

Real code executed: psutil.pids/pid_exists/process_iter (+cache_clear), Process.__init__/as_dict/is_running, _pslinux.pids/pid_exists,
_psposix.pid_exists.
"""
import errno

from psv import simk
from psv.run import harness
from psv.simk import psutil

POOL = [1, 7, 12, 300]
TID = 13            # a thread of process 12: kill() accepts it, /proc/13 exists but is not listed
ATTRS = ["name", "ppid", "status", "num_threads"]

META = dict(
    assumptions=[
        "the process table is a set of PIDs listed in /proc; a thread id is not listed but /proc/<tid>/status exists with Tgid = its process and kill(tid, 0) succeeds (kernel behaviour psutil documents in pid_exists)",
        "os.kill(pid, 0): OverflowError when pid does not fit a C int (CPython's pid_t conversion), ESRCH when no task has that id",
        "table changes happen between psutil calls or between two next() calls of a partially consumed iterator",
        "two incarnations of a PID differ in start ticks",
    ],
    stubs=["os.listdir('/proc')", "open() of /proc/<pid>/{stat,status}", "os.kill"],
    bounds=dict(quick=dict(pool="4 PIDs + 1 thread id, presence and re-use per step symbolic", history="K<=2 steps of {table change, full iteration, partial iteration, cache_clear, is_running on cached objects}", pid_exists="one unconstrained integer"),
                thorough=dict(pool="as quick", history="K<=3 unrestricted; K<=5 with one changing PID and the events {table change, iterate[, is_running]}", pid_exists="as quick")),
    outside=["more than 2 threads / more than 2 pre-emptions; races inside one source line", "more than 4 PIDs"],
    labels=["pids-ascending-listed", "ascending-one-per-listed-pid", "same-object-while-listed", "fresh-object-after-detected-reuse", "cache-holds-exactly-listed", "is_running", "pid_exists-listed",
            "pid_exists-any-int", "attrs-info-keys", "partial-iteration-skips-vanished", "race-no-exception", "torn-down-process-skipped"],
)


def _check_listing(ctx, got, listed, flagged):
    """one Process per listed PID, ascending.  Known finding C04-reused-pid-skipped-once: a PID that is_running() found
    recycled is left out of the next pass; anything else than the correct listing or exactly that omission is new."""
    if not flagged:
        ctx.prove(got == listed, "ascending-one-per-listed-pid", detail=f"{got} vs {listed}")
    else:
        ctx.prove(got == listed, "one-per-listed-pid[after-detected-reuse]", detail=f"{got} vs {listed}; PIDs found recycled by is_running(): {flagged}")
        ctx.prove(got in (listed, [p for p in listed if p not in flagged]), "listing-correct-or-known-omission", detail=f"{got} vs {listed} flagged={flagged}")


class Table:
    def __init__(self, ctx, k):
        self.ctx, self.k = ctx, k
        self.gen = {p: 0 for p in POOL}
        self.present = {p: (p in (1, 12)) for p in POOL}
        self.refresh()

    def refresh(self):
        k = self.k
        for p in POOL:
            if self.present[p]:
                simk.full_process(k, p, ppid=0 if p == 1 else 1)
                k.files[f"/proc/{p}/stat"] = simk.stat_record(k, p, b"proc", b"S", {4: 0 if p == 1 else 1, 20: 2, 22: 1000 * p + self.gen[p]})
            else:
                k.procs.discard(p)
                for n in [n for n in list(k.files) + list(k.links) + list(k.dirs) if n == f"/proc/{p}" or n.startswith(f"/proc/{p}/")]:
                    k.files.pop(n, None), k.links.pop(n, None), k.dirs.pop(n, None)
        # thread 13 of process 12
        if self.present[12]:
            k.procs.add(TID)
            k.files[f"/proc/{TID}/status"] = simk.STATUS_TMPL.format(comm="proc", pid=12, ppid=1).replace("Pid:\t12", f"Pid:\t{TID}")
            k.files[f"/proc/{TID}/stat"] = simk.stat_record(k, TID, b"proc", b"S", {4: 1, 22: 12000})
        else:
            k.procs.discard(TID)
            k.files.pop(f"/proc/{TID}/status", None), k.files.pop(f"/proc/{TID}/stat", None)
        k.dirs["/proc"] = [str(p) for p in POOL if self.present[p]] + ["self", "net", "stat"]

    def change(self, tag, only=None):
        for p in (only or POOL[1:]):
            now = self.ctx.flag(f"p{tag}_{p}")
            if now and not self.present[p]:
                self.gen[p] += 1                      # a new process takes the pid
            elif now and self.present[p] and self.ctx.flag(f"recycled{tag}_{p}"):
                self.gen[p] += 1                      # exit + re-use between two observations
            self.present[p] = now
        self.refresh()

    def listed(self):
        return [p for p in POOL if self.present[p]]


ITER_EVENTS = ["table", "iterate", "clear", "is_running", "attrs"]


SCRIPTS = [["table", "iterate", "table", "iterate", "iterate"], ["table", "is_running", "iterate", "iterate", "iterate"], ["iterate", "table", "attrs", "iterate", "iterate"]]


@harness("C04.iter", quick=[dict(K=2)] + [dict(K=len(s_), script=s_, changing=[7, 12]) for s_ in SCRIPTS[:2]],
         thorough=[dict(K=3), dict(K=4, events=["table", "iterate", "is_running"], changing=[12]), dict(K=5, events=["table", "iterate"], changing=[12])]
         + [dict(K=len(s_), script=s_) for s_ in SCRIPTS] + [dict(K=7, script=["iterate", "table", "iterate", "iterate", "table", "iterate", "iterate"], changing=[7, 12])])
def iter_(ctx, K, events=None, changing=None, script=None):
    """events / changing: restrictions used for the longer histories (which events may occur, which PIDs may change);
    script: a fixed event skeleton (only the table contents stay symbolic) -- used for the passes-after-a-change histories in which
    a PID lower than a cached one appears and the listing is then iterated twice more"""
    k = simk.Kernel(ctx)
    simk.system_files(k)
    t = Table(ctx, k)
    cache = {}     # reference of what the cache should hold: pid -> (object, incarnation)
    detected = set()   # PIDs that is_running() has reported as recycled since the last process_iter() pass (tracked here, not read from psutil)
    users = {}
    with k.installed():
        if events is None:
            users = {p_: (psutil.Process(p_), t.gen[p_]) for p_ in t.listed()}     # objects the user holds himself (never in the cache)
        for step in range(K):
            ev = script[step] if script else ctx.choice(f"ev{step}", events or ITER_EVENTS)
            if ev == "table":
                t.change(step, changing)
            elif ev == "clear":
                psutil.process_iter.cache_clear()
                cache.clear()
            elif ev == "is_running":
                for p, (obj, g) in list(cache.items()) + list(users.items()):
                    r = obj.is_running()
                    ctx.prove(r == (t.present[p] and t.gen[p] == g), "is_running", detail=f"pid {p}")
                    if not r and t.present[p]:
                        detected.add(p)
            elif ev == "attrs":
                want = [a for a in ATTRS if ctx.flag(f"attr{step}_{a}")]
                if not want:
                    continue          # attrs=[] is documented as "all attributes"
                flagged = sorted(p for p in detected if p in t.listed())
                detected.clear()
                # cached objects whose PID was recycled since: `ppid` runs the re-use check, which raises NoSuchProcess in the middle of
                # the pass, so that PID is dropped from this pass too (known finding C04-reused-pid-skipped-during-pass)
                stale = sorted(p for p, (o_, g_) in cache.items() if p in t.listed() and t.gen[p] != g_ and p not in flagged) if "ppid" in want else []
                got = ctx.guard("attrs-info-keys", lambda: list(psutil.process_iter(attrs=want)))
                if stale:
                    gp, listed_ = [x.pid for x in got], t.listed()
                    ctx.prove(gp == listed_, "one-per-listed-pid[recycled-found-during-pass]", detail=f"{gp} vs {listed_}; cached objects of recycled PIDs: {stale}")
                    ctx.prove(gp in (listed_, [p for p in listed_ if p not in stale and p not in flagged], [p for p in listed_ if p not in stale], [p for p in listed_ if p not in flagged]),
                              "listing-correct-or-known-omission", detail=f"{gp} vs {listed_} stale={stale} flagged={flagged}")
                else:
                    _check_listing(ctx, [x.pid for x in got], t.listed(), flagged)
                ctx.prove(all(set(x.info) == set(want) for x in got), "attrs-info-keys", detail=f"{want}")
                for x in got:
                    if x.pid not in cache or cache[x.pid][0] is not x:
                        cache[x.pid] = (x, t.gen[x.pid])
                for p in list(cache):
                    if p not in t.listed():
                        del cache[p]
            else:
                listed = t.listed()
                ctx.prove(psutil.pids() == listed, "pids-ascending-listed")
                flagged = sorted(p for p in detected if p in listed)     # found recycled by is_running() since the last pass
                detected.clear()
                got = ctx.guard("ascending-one-per-listed-pid", lambda: list(psutil.process_iter()))
                _check_listing(ctx, [x.pid for x in got], listed, flagged)
                for x in got:
                    if x.pid in cache:
                        obj, g = cache[x.pid]
                        if not (obj._pid_reused or obj._gone):
                            ctx.prove(x is obj, "same-object-while-listed", detail=f"pid {x.pid}")
                        else:
                            ctx.prove(x is not obj, "fresh-object-after-detected-reuse", detail=f"pid {x.pid}")
                    if x.pid not in cache or cache[x.pid][0] is not x:
                        cache[x.pid] = (x, t.gen[x.pid])
                for p in list(cache):
                    if p not in listed:
                        del cache[p]
                if not flagged:
                    ctx.prove(set(psutil._pmap) == set(listed), "cache-holds-exactly-listed")
                else:       # known finding C04-reused-pid-skipped-once: the skipped PID is also missing from the cache until the next pass
                    ctx.prove(set(psutil._pmap) in (set(listed), set(listed) - set(flagged)), "cache-correct-or-known-omission", detail=f"{sorted(psutil._pmap)} listed={listed} flagged={flagged}")
        for p in POOL:
            ctx.prove(psutil.pid_exists(p) == t.present[p], "pid_exists-listed", detail=f"pid {p}")
        ctx.prove(psutil.pid_exists(TID) is False, "pid_exists-listed", detail="thread id")
        if K >= 2:
            psutil.process_iter.cache_clear()
            ctx.prove(psutil._pmap == {}, "cache_clear-empties")


@harness("C04.reuse_refresh")
def reuse_refresh(ctx):
    """iterate; PIDs get recycled (symbolic which); is_running() on the cached objects; iterate again: an entry whose PID was
    found recycled is replaced by a fresh object, every other entry is the very same object"""
    k = simk.Kernel(ctx)
    simk.system_files(k)
    t = Table(ctx, k)
    t.change("a")
    with k.installed():
        first = {x.pid: x for x in psutil.process_iter()}
        gen0 = dict(t.gen)
        t.change("b")
        checked = {}
        for p, obj in first.items():
            if ctx.flag(f"check{p}"):
                checked[p] = obj.is_running()
                ctx.prove(checked[p] == (t.present[p] and t.gen[p] == gen0[p]), "is_running", detail=f"pid {p}")
        flagged = sorted(p for p in psutil._pids_reused if p in t.listed())
        second = {x.pid: x for x in ctx.guard("ascending-one-per-listed-pid", lambda: list(psutil.process_iter()))}
        third = {x.pid: x for x in ctx.guard("ascending-one-per-listed-pid", lambda: list(psutil.process_iter()))}
        alive3 = {p: obj.is_running() for p, obj in third.items()}
    _check_listing(ctx, sorted(second), t.listed(), flagged)
    ctx.prove(sorted(third) == t.listed(), "ascending-one-per-listed-pid", detail="third pass")
    for p, obj in third.items():
        if p in first:
            if p in checked and checked[p] is False:
                ctx.prove(obj is not first[p] and alive3[p], "fresh-object-after-detected-reuse", detail=f"pid {p}")
            else:
                ctx.prove(obj is first[p] and second.get(p) is obj, "same-object-while-listed", detail=f"pid {p}")


@harness("C04.partial", quick=[dict(consume=c, finish=f) for c in (1, 2) for f in ("exhaust", "close")], thorough=[dict(consume=c, finish=f) for c in (0, 1, 2, 3) for f in ("exhaust", "close")])
def partial(ctx, consume, finish="exhaust"):
    """a partially consumed iterator with the table changing between next() calls: yields ascending PIDs that were listed
    when it started, silently skipping those that vanished.  While the iterator is suspended is_running() may be asked of the
    objects it has handed out; finish="close": the iterator is abandoned (closed) instead of being consumed to the end.  Two more
    passes follow: the very same object for a PID that stayed listed, a fresh one where is_running() found the PID recycled."""
    k = simk.Kernel(ctx)
    simk.system_files(k)
    t = Table(ctx, k)
    t.change("a")
    with k.installed():
        started = t.listed()
        it = psutil.process_iter()
        objs = []
        for _ in range(consume):
            try:
                objs.append(next(it))
            except StopIteration:
                break
        gen0 = dict(t.gen)
        t.change("b")
        if consume == 0:
            started = t.listed()        # a generator reads the table at its first next(), not when it is created
        found = {}
        if objs and ctx.flag("is_running_while_suspended"):
            for o in objs:
                found[o.pid] = o.is_running()
                ctx.prove(found[o.pid] == (t.present[o.pid] and t.gen[o.pid] == gen0[o.pid]), "is_running", detail=f"pid {o.pid}")
        n_first = len(objs)
        if finish == "close":
            it.close()
        else:
            objs += ctx.guard("partial-iteration-skips-vanished", lambda: list(it))
        got = [x.pid for x in objs]
        listed = t.listed()
        flagged = sorted(p_ for p_, r in found.items() if not r and p_ in listed)
        second = ctx.guard("ascending-one-per-listed-pid", lambda: list(psutil.process_iter()))
        third = ctx.guard("ascending-one-per-listed-pid", lambda: list(psutil.process_iter()))
        alive3 = {x.pid: x.is_running() for x in third}
    ctx.prove(got == sorted(got) and len(got) == len(set(got)) and set(got) <= set(started), "partial-iteration-skips-vanished", detail=f"{got} started={started}")
    if finish == "exhaust":
        still = [p for p in started if t.present[p]]
        ctx.prove(set(still) <= set(got), "partial-iteration-skips-vanished", detail=f"{got} must include {still}")
    _check_listing(ctx, [x.pid for x in second], listed, flagged)
    ctx.prove([x.pid for x in third] == listed, "ascending-one-per-listed-pid", detail=f"third pass {[x.pid for x in third]} vs {listed}")
    by2, by3 = {x.pid: x for x in second}, {x.pid: x for x in third}
    for o in objs:
        if o.pid not in by3:
            continue
        if o.pid in flagged:
            ctx.prove(by3[o.pid] is not o and alive3[o.pid], "fresh-object-after-detected-reuse", detail=f"pid {o.pid} after a pass that was {finish}d (consumed {n_first})")
        else:
            ctx.prove(by3[o.pid] is o and by2.get(o.pid) is o, "same-object-while-listed", detail=f"pid {o.pid} after a pass that was {finish}d (consumed {n_first})")


@harness("C04.unreadable", quick=[dict(attrs=a) for a in (None, ["name", "status"], [])])
def unreadable(ctx, attrs):
    """processes psutil can learn little about are processes like any other: one whose stat record cannot be opened (EACCES / EPERM:
    hidepid, an LSM) -- so that its start time is unknown when the object is built -- and one whose status record lacks the optional
    context-switch lines (old kernels, gVisor).  Every pass yields one object per listed PID, the very same object each time; with
    attrs=[...] the info dict has exactly those keys; attrs=[] means all attributes, those the platform cannot provide left out."""
    k = simk.Kernel(ctx)
    simk.system_files(k)
    t = Table(ctx, k)
    t.change("a")
    victim = ctx.choice("stat_unreadable", POOL + [None])
    if victim is not None and t.present[victim]:
        path = f"/proc/{victim}/stat"
        k.files[path] = simk.oserr(ctx.choice("errno", [errno.EACCES, errno.EPERM]), path)
    old = ctx.choice("status_without_ctxt_lines", POOL + [None])
    if old is not None and t.present[old]:
        st_ = k.files[f"/proc/{old}/status"]
        k.files[f"/proc/{old}/status"] = "".join(l for l in st_.splitlines(True) if "ctxt_switches" not in l)
    with k.installed():
        passes = [ctx.guard("ascending-one-per-listed-pid", lambda: list(psutil.process_iter(attrs))) for _ in range(3)]
    listed = t.listed()
    for n, got in enumerate(passes):
        ctx.prove([x.pid for x in got] == listed, "ascending-one-per-listed-pid", detail=f"pass {n}: {[x.pid for x in got]} vs {listed}; stat unreadable: {victim}")
    for a, b, c in zip(*passes):
        ctx.prove(a is b and b is c, "same-object-while-listed", detail=f"pid {a.pid} (stat unreadable: {victim})")
    if attrs is not None:
        every = set(psutil._as_dict_attrnames)
        for x in passes[-1]:
            want = set(attrs) if attrs else every - ({"num_ctx_switches"} if x.pid == old else set())
            ctx.prove(set(x.info) == want, "attrs-info-keys", detail=f"pid {x.pid}: missing {sorted(want - set(x.info))} extra {sorted(set(x.info) - want)}")


@harness("C04.torn_down", quick=[dict(attrs=a) for a in (None, ["name", "status"])])
def torn_down(ctx, attrs):
    """a process that is being torn down while the table is iterated: it is still listed and its /proc/<pid>/stat still opens, but
    reading it fails with ESRCH.  process_iter() neither raises nor loses the other processes; the dying one may be skipped."""
    k = simk.Kernel(ctx)
    simk.system_files(k)
    t = Table(ctx, k)
    t.change("a")
    with k.installed():
        first = [x.pid for x in ctx.guard("torn-down-process-skipped", lambda: list(psutil.process_iter(attrs)))]
        victim = ctx.choice("dying", POOL)
        if t.present[victim]:
            when = ctx.choice("dying_from", ["second pass", "cached then dying"])
            path = f"/proc/{victim}/stat"
            k.files[path] = simk.fails_on_read(k, path)
            if when == "second pass":
                psutil.process_iter.cache_clear()
        got = [x.pid for x in ctx.guard("torn-down-process-skipped", lambda: list(psutil.process_iter(attrs)))]
    listed = t.listed()
    ctx.prove(first == listed, "ascending-one-per-listed-pid", detail=f"{first} vs {listed}")
    ctx.prove(got == sorted(got) and set(got) <= set(listed) and set(listed) - {victim} <= set(got), "torn-down-process-skipped", detail=f"{got} vs {listed}, dying: {victim}")


@harness("C04.race", quick=[dict(P=1)], thorough=[dict(P=2)], timeout_ms=5000)
def race(ctx, P):
    """two threads iterating at once (source-line granularity, at most P pre-emptions): no exception, each sequence ascending
    and made of listed PIDs"""
    from psv import sched

    k = simk.Kernel(ctx)
    simk.system_files(k)
    t = Table(ctx, k)
    flagged = ctx.flag("one_pid_flagged_reused")
    S = sched.Scheduler(ctx, budget=P, files={simk.REPO + "/psutil/__init__.py"})
    with k.installed(extra=[(psutil, "threading", sched.ThreadingProxy(S))]):
        list(psutil.process_iter())
        if flagged:
            psutil._pids_reused.add(12)         # as if is_running() had just found PID 12 recycled
        res = S.run([lambda: [x.pid for x in psutil.process_iter()], lambda: [x.pid for x in psutil.process_iter()]])
    for i in (0, 1):
        kind, val = res[i]
        ctx.prove(kind == "ok", "race-no-exception", detail=f"thread {i}: {val!r} after pre-emptions at {S.trace}")
        if kind == "ok":
            ctx.prove(val == sorted(val) and set(val) <= set(t.listed()), "race-ascending-listed", detail=f"thread {i}: {val}")


@harness("C04.pid_exists", quick=[dict(status=s_) for s_ in ("ok", "EPERM", "EACCES", "ENOENT", "ESRCH-on-read", "no-tgid", "kill-EPERM", "name:Tgid:\t<tid>", "name:Tgid:\t<tgid>", "name:x Tgid:\t1")])
def pid_exists(ctx, status="ok"):
    """pid_exists(n) for ONE unconstrained integer n: True exactly for the listed PIDs, False for thread ids, negative and
    absent numbers, never an exception for a non-negative int -- also when /proc/<n>/status cannot be read (permission refused,
    gone between kill() and open(), no Tgid line) or kill() answers EPERM (the task exists but belongs to someone else)"""
    k = simk.Kernel(ctx)
    simk.system_files(k)
    t = Table(ctx, k)
    n = ctx.int("n")
    for p in t.listed() + [TID]:
        path = f"/proc/{p}/status"
        if status.startswith("name:"):
            # a task whose NAME imitates the Tgid line (the kernel escapes only newline and backslash on the Name: line)
            k.files[path] = simk.STATUS_TMPL.format(comm=status[5:].replace("<tgid>", "12").replace("<tid>", str(TID)), pid=12 if p == TID else p, ppid=1).replace("Pid:\t12\n", f"Pid:\t{p}\n") if p == TID else \
                simk.STATUS_TMPL.format(comm=status[5:].replace("<tgid>", "99").replace("<tid>", str(TID)), pid=p, ppid=1)
        elif status in ("EPERM", "EACCES", "ENOENT"):
            k.files[path] = simk.oserr(getattr(errno, status), path)
        elif status == "ESRCH-on-read":
            k.files[path] = simk.fails_on_read(k, path)
        elif status == "no-tgid":
            k.files[path] = "Name:\tproc\nState:\tS (sleeping)\n"
    if status == "kill-EPERM":
        k.denied = set(t.listed() + [TID])
    with k.installed():
        try:
            r, exc = bool(psutil.pid_exists(n)), None
        except Exception as e:  # noqa: BLE001
            r, exc = None, e
    want = ctx.any([ctx.eq(n, p) for p in t.listed()])
    if exc is not None:
        ctx.prove(False, "pid_exists-any-int", detail=f"{type(exc).__name__}: {exc}")
    else:
        ctx.prove((r is True or r is False) and ctx.eq(1 if r else 0, ctx.ite(want, 1, 0)), "pid_exists-any-int", detail=f"result {r}")
