"""C03 — A process vanishing or being denied mid-call yields only psutil errors.

Real code executed: every public query method of psutil.Process (+ as_dict, children, parent, parents, is_running) and
psutil.process_iter(attrs), with all of _pslinux.Process, wrap_exceptions, _readlink, _raise_if_zombie, ppid_map and
NetConnections.get_proc_inodes underneath.
"""
import errno

from psv import simk, sym
from psv.run import harness
from psv.simk import psutil

P = 77
METHODS = ["name", "exe", "cmdline", "status", "username", "create_time", "cwd", "nice", "ionice", "cpu_affinity", "uids", "gids", "terminal",
           "num_fds", "io_counters", "cpu_num", "environ", "num_ctx_switches", "num_threads", "threads", "cpu_times", "cpu_percent",
           "memory_info", "memory_full_info", "memory_percent", "memory_maps", "open_files", "net_connections", "ppid",
           "rlimit_get", "as_dict", "children", "children_r", "parent", "parents", "is_running",
           # the setting forms and the signals take the same paths through /proc (identity check, eligible CPUs ...) and the per-process syscalls
           "cpu_affinity_all", "cpu_affinity_set", "nice_set", "ionice_set", "rlimit_set", "suspend", "send_signal_0"]
TWO_FAULT_Q = ["name", "exe", "cmdline", "memory_full_info", "open_files", "threads", "as_dict", "children"]
OK = (psutil.NoSuchProcess, psutil.ZombieProcess, psutil.AccessDenied)

META = dict(
    assumptions=[
        "vanish at access k: every access >= k to the process fails the way the kernel fails it (ENOENT on open/readlink/listdir/stat, ESRCH on read of an open file and from syscalls), the PID disappears from /proc listings and from kill()",
        "deny at access k: that access alone fails with EACCES or EPERM",
        "zombie: the kernel's zombie view (state Z, empty cmdline/environ/smaps, ENOENT on exe and cwd links)",
        "faults are injected on the per-process files and per-process syscalls only (system-wide files such as /proc/net/*, /proc/stat, /dev/tty* are outside)",
    ],
    stubs=["fault gate on every open/read/readlink/listdir/stat under /proc/<pid> and every per-process syscall stub (getpriority, ioprio_get, sched_getaffinity, prlimit)"],
    bounds=dict(quick=dict(methods=len(METHODS), single_fault="every access index k of every method, kinds vanish / deny(EACCES) / deny(EPERM) / zombie", two_faults=f"deny at i, vanish at j>i for {len(TWO_FAULT_Q)} methods"),
                thorough=dict(methods=len(METHODS), single_fault="as quick", two_faults="all methods")),
    outside=["EIO/ENOMEM and faults on system-wide files", "more than two faults in one call"],
    labels=["only-psutil-errors[vanish]", "only-psutil-errors[deny]", "only-psutil-errors[zombie]", "carries-pid", "AD-only-if-denied", "Zombie-only-if-zombie", "gone-stays-gone", "process_iter-skips", "as_dict-ad_value", "relative-result", "relative-vanish-is-not-an-error"],
)


def call(p, m):
    if m == "rlimit_get":
        return p.rlimit(psutil.RLIMIT_NOFILE)
    if m == "children_r":
        return p.children(recursive=True)
    if m == "cpu_affinity_all":
        return p.cpu_affinity([])
    if m == "cpu_affinity_set":
        return p.cpu_affinity([0, 1])
    if m == "nice_set":
        return p.nice(5)
    if m == "ionice_set":
        return p.ionice(psutil.IOPRIO_CLASS_BE, 3)
    if m == "rlimit_set":
        return p.rlimit(psutil.RLIMIT_NOFILE, (100, 200))
    if m == "send_signal_0":
        return p.send_signal(0)
    return getattr(p, m)()


def build(ctx, zombie=False):
    k = simk.Kernel(ctx)
    simk.system_files(k)
    simk.full_process(k, 1, ppid=0, comm="init")
    simk.full_process(k, P, ppid=1, zombie=zombie)
    simk.full_process(k, 90, ppid=P, comm="kid")
    k.dirs["/proc"] = ["1", str(P), "90"]
    k.fault.pid = P
    return k


def classify(ctx, exc, kind, method, info, pids=(P,)):
    ctx.prove(exc is None or isinstance(exc, OK), f"only-psutil-errors[{kind.split('_')[0]}]", detail=f"{method}: {type(exc).__name__}: {exc} | {info}")
    if exc is None or not isinstance(exc, OK):
        return
    ctx.prove(exc.pid in pids, "carries-pid", detail=f"{method}: {exc!r} | {info}")
    if isinstance(exc, psutil.AccessDenied):
        ctx.prove("deny" in kind, "AD-only-if-denied", detail=f"{method} | {info}")
    if isinstance(exc, psutil.ZombieProcess):
        ctx.prove(kind == "zombie", "Zombie-only-if-zombie", detail=f"{method} | {info}")


@harness("C03.single", quick=[dict(method=m, kind=kd) for m in METHODS for kd in ("vanish", "half_gone", "deny", "deny_eperm", "zombie", "esrch")], timeout_ms=5000)
def single(ctx, method, kind):
    k = build(ctx, zombie=(kind == "zombie"))
    with k.installed():
        try:
            p = psutil.Process(P)
        except psutil.ZombieProcess:
            ctx.reach(f"only-psutil-errors[{kind.split('_')[0]}]")
            return
        k.fault.prefix = f"/proc/{P}"
        k.naccess = 0
        idx = ctx.int("k", 0, 400)
        if kind in ("vanish", "half_gone"):
            k.fault.vanish_at = idx
            k.fault.keep_dir = kind == "half_gone"      # everything inside /proc/<pid> is gone, the directory still answers stat()
        elif kind in ("deny", "deny_eperm"):
            k.fault.deny_at = idx
            k.fault.deny_errno = errno.EACCES if kind == "deny" else errno.EPERM
        elif kind == "esrch":
            # one access alone fails with ESRCH while every /proc entry of the process is still there: the task is being torn down
            # (what read() of an already opened /proc/<pid>/stat answers in that window)
            k.fault.deny_at = idx
            k.fault.deny_errno = errno.ESRCH
        try:
            call(p, method)
            exc = None
        except Exception as e:  # noqa: BLE001
            exc = e
        info = f"fault={k.fault.fired[:2]} after {k.naccess} accesses"
        classify(ctx, exc, "vanish[esrch-once]" if kind == "esrch" else "vanish[directory-lingers]" if kind == "half_gone" else kind, method, info)
        if kind in ("vanish", "half_gone") and k.fault.fired:
            # once the process is gone every later query on that object raises NoSuchProcess
            for m2 in ("name", "cpu_times", "memory_info", "cmdline", "status", "ppid", "num_fds", "nice"):
                try:
                    call(p, m2)
                    e2 = None
                except Exception as e:  # noqa: BLE001
                    e2 = e
                ctx.prove(isinstance(e2, psutil.NoSuchProcess) and e2.pid == P, "gone-stays-gone", detail=f"after {method} vanished at {k.fault.fired[0]}: {m2} -> {e2!r}")
            ctx.prove(p.is_running() is False, "gone-stays-gone", detail="is_running()")


@harness("C03.outside_denied", quick=[dict(method=m) for m in ("memory_maps", "open_files", "exe", "cwd", "as_dict")])
def outside_denied(ctx, method):
    """the refusal comes from OUTSIDE /proc/<pid>: a path the process's own records name (a mapping, a descriptor, the exe and cwd
    links, each with the kernel's ' (deleted)' suffix) cannot be stat()ed by the caller (EACCES / EPERM on a directory above it).
    Still a value or AccessDenied carrying the pid -- never a bare PermissionError; as_dict() puts ad_value"""
    k = build(ctx)
    en = ctx.choice("errno", [errno.EACCES, errno.EPERM])
    paths = {"map": "/data/lib.so (deleted)", "fd": "/data/file (deleted)", "exe": "/usr/bin/cat (deleted)", "cwd": "/home/u (deleted)"}
    refused = ctx.choice("refused", sorted(paths))
    k.files[f"/proc/{P}/smaps"] = simk.SMAPS_TMPL.replace("/usr/bin/cat", paths["map"])
    k.links[f"/proc/{P}/fd/3"] = paths["fd"]
    k.links[f"/proc/{P}/exe"] = paths["exe"]
    k.links[f"/proc/{P}/cwd"] = paths["cwd"]
    for key, pth in paths.items():
        k.stats[pth] = simk.oserr(en, pth) if key == refused else simk.oserr(errno.ENOENT, pth)
        k.stats[pth[:-10]] = simk.StatResult(0o040755 if key == "cwd" else 0o100644)
    AD = object()
    with k.installed():
        p = psutil.Process(P)
        try:
            r, exc = (p.as_dict(attrs=["memory_maps", "open_files", "exe", "cwd"], ad_value=AD) if method == "as_dict" else call(p, method)), None
        except Exception as e:  # noqa: BLE001
            r, exc = None, e
    info = f"stat() of {paths[refused]!r} refused ({errno.errorcode[en]})"
    if method == "as_dict":
        ctx.prove(exc is None, "only-psutil-errors[deny]", detail=f"as_dict: {type(exc).__name__}: {exc} | {info}")
        return
    classify(ctx, exc, "deny", method, info)
    touched = {"memory_maps": "map", "open_files": "fd", "exe": "exe", "cwd": "cwd"}[method]
    if touched != refused:
        ctx.prove(exc is None, "AD-only-if-denied", detail=f"{method}: {exc!r} | {info}")


@harness("C03.stranger", quick=[dict(method=m, kind=kd) for m in ("children", "children_r", "parent", "parents") for kd in ("vanish", "deny", "deny_eperm")], timeout_ms=5000)
def stranger(ctx, method, kind):
    """a process that is NOT a relative of the object (another child of init) vanishes or turns unreadable while the tree is walked, at
    every access index to its /proc entries: the answer about the object's own relatives is what it is without the fault"""
    k = simk.Kernel(ctx)
    simk.system_files(k)
    simk.full_process(k, 1, ppid=0, comm="init")
    simk.full_process(k, P, ppid=1)
    simk.full_process(k, 90, ppid=P, comm="kid")
    simk.full_process(k, 95, ppid=1, comm="stranger")
    k.dirs["/proc"] = ["1", str(P), "90", "95"]
    k.fault.pid = 95
    with k.installed():
        p = psutil.Process(P)
        k.fault.prefix = "/proc/95"
        k.naccess = 0
        idx = ctx.int("k", 0, 400)
        if kind == "vanish":
            k.fault.vanish_at = idx
        else:
            k.fault.deny_at = idx
            k.fault.deny_errno = errno.EACCES if kind == "deny" else errno.EPERM
        try:
            r, exc = call(p, method), None
        except Exception as e:  # noqa: BLE001
            r, exc = None, e
    info = f"fault on the unrelated pid 95: {k.fault.fired[:2]}"
    ctx.prove(exc is None, "stranger-does-not-matter", detail=f"{method}: {exc!r} | {info}")
    if exc is None:
        got = r.pid if method == "parent" and r is not None else [x.pid for x in r] if r is not None else None
        ctx.prove(got == {"children": [90], "children_r": [90], "parent": 1, "parents": [1]}[method], "stranger-does-not-matter", detail=f"{method}: {got} | {info}")


@harness("C03.relative", quick=[dict(method=m, kind=kd) for m in ("children", "children_r", "parent", "parents") for kd in ("vanish", "deny", "deny_eperm", "zombie")], timeout_ms=5000)
def relative(ctx, method, kind):
    """the process that vanishes / turns unreadable / is a zombie while the tree is walked is a RELATIVE of the object (its child for
    children(), its parent for parent()/parents()), at every access index to that relative's /proc entries: the outcome is a value
    or a psutil error carrying the pid of the object or of that relative"""
    rel = 90 if method.startswith("children") else 1
    k = simk.Kernel(ctx)
    simk.system_files(k)
    simk.full_process(k, 1, ppid=0, comm="init", zombie=(kind == "zombie" and rel == 1))
    simk.full_process(k, P, ppid=1)
    simk.full_process(k, 90, ppid=P, comm="kid", zombie=(kind == "zombie" and rel == 90))
    simk.full_process(k, 91, ppid=P, comm="kid2")
    k.dirs["/proc"] = ["1", str(P), "90", "91"]
    k.fault.pid = rel
    with k.installed():
        p = psutil.Process(P)
        k.fault.prefix = f"/proc/{rel}"
        k.naccess = 0
        idx = ctx.int("k", 0, 400)
        if kind == "vanish":
            k.fault.vanish_at = idx
        elif kind in ("deny", "deny_eperm"):
            k.fault.deny_at = idx
            k.fault.deny_errno = errno.EACCES if kind == "deny" else errno.EPERM
        try:
            r, exc = call(p, method), None
        except Exception as e:  # noqa: BLE001
            r, exc = None, e
        info = f"fault on pid {rel}: {k.fault.fired[:2]} after {k.naccess} accesses"
        classify(ctx, exc, kind, method, info, pids=(P, rel))
        if kind == "vanish":
            # a relative that goes away while the tree is walked is left out / answered with None: the (live) object's call does not fail
            ctx.prove(exc is None, "relative-vanish-is-not-an-error", detail=f"{method}: {exc!r} | {info}")
        if exc is None and method.startswith("children"):
            got = sorted(c.pid for c in r)
            # the sibling that is not affected is always reported; the affected child only if it is still there
            untouched = kind in ("deny", "deny_eperm", "zombie") and not k.fault.fired     # (a vanish at index 0 is visible only as an absence)
            ctx.prove(91 in got and set(got) <= {90, 91} and (90 in got or not untouched), "relative-result", detail=f"{method}: {got} | {info}")
        if exc is None and method == "parent" and not k.fault.fired and kind != "vanish":
            ctx.prove(r is not None and r.pid == 1, "relative-result", detail=f"parent: {r.pid if r else None}")


@harness("C03.double", quick=[dict(method=m) for m in TWO_FAULT_Q], thorough=[dict(method=m) for m in METHODS], timeout_ms=5000)
def double(ctx, method):
    """deny at access i, then the process vanishes at access j > i"""
    k = build(ctx)
    with k.installed():
        p = psutil.Process(P)
        k.fault.prefix = f"/proc/{P}"
        k.naccess = 0
        i = ctx.int("i", 0, 400)
        j = ctx.int("j", 0, 400)
        ctx.assume(j > i)
        k.fault.deny_at, k.fault.vanish_at = i, j
        try:
            call(p, method)
            exc = None
        except Exception as e:  # noqa: BLE001
            exc = e
        classify(ctx, exc, "deny+vanish", method, f"faults={k.fault.fired[:3]}")


@harness("C03.vanish_then_deny", quick=[dict(method=m) for m in ("cmdline", "memory_info", "num_fds", "cwd", "environ", "nice", "threads", "name")], thorough=[dict(method=m) for m in METHODS], timeout_ms=5000)
def vanish_then_deny(ctx, method):
    """the process vanishes at access i and a LATER access j > i is refused (EACCES) instead of failing with "no such file": the error
    translation itself re-reads /proc/<pid>/stat (zombie check) after the first failure"""
    k = build(ctx)
    with k.installed():
        p = psutil.Process(P)
        k.fault.prefix = f"/proc/{P}"
        k.naccess = 0
        i = ctx.int("i", 0, 400)
        j = ctx.int("j", 0, 400)
        ctx.assume(j > i)
        k.fault.vanish_at, k.fault.deny_at = i, j
        try:
            call(p, method)
            exc = None
        except Exception as e:  # noqa: BLE001
            exc = e
        classify(ctx, exc, "vanish+deny", method, f"faults={k.fault.fired[:3]}")


@harness("C03.deny_twice", quick=[dict(method=m) for m in ("as_dict", "memory_full_info", "open_files")], thorough=[dict(method=m) for m in METHODS], timeout_ms=5000)
def deny_twice(ctx, method):
    """two separate accesses i < j refused (EACCES then EPERM)"""
    k = build(ctx)
    with k.installed():
        p = psutil.Process(P)
        k.fault.prefix = f"/proc/{P}"
        k.naccess = 0
        i = ctx.int("i", 0, 400)
        j = ctx.int("j", 0, 400)
        ctx.assume(j > i)
        orig_access = k.access
        k.fault.deny_at = i

        def access(kind, path):
            n_before = k.naccess
            try:
                return orig_access(kind, path)
            finally:
                if k.fault.fired and k.fault.deny_at is i and k.naccess > n_before and k.fault.fired[-1][0] == "deny":
                    k.fault.deny_at, k.fault.deny_errno = j, errno.EPERM

        k.access = access
        try:
            call(p, method)
            exc = None
        except Exception as e:  # noqa: BLE001
            exc = e
        classify(ctx, exc, "deny+deny", method, f"faults={k.fault.fired[:3]}")


ATTRS = ["name", "cmdline", "cpu_times", "memory_info", "num_fds", "status", "exe", "username"]


@harness("C03.process_iter", quick=[dict(kind=kd) for kd in ("vanish", "deny", "zombie", "esrch")])
def process_iter(ctx, kind):
    """process_iter(attrs) silently skips a process that vanishes and maps AccessDenied/Zombie to ad_value"""
    k = build(ctx, zombie=(kind == "zombie"))
    with k.installed():
        k.fault.prefix = f"/proc/{P}"
        k.naccess = 0
        idx = ctx.int("k", 0, 400)
        if kind == "vanish":
            k.fault.vanish_at = idx
        elif kind == "deny":
            k.fault.deny_at = idx
        elif kind == "esrch":
            k.fault.deny_at, k.fault.deny_errno = idx, errno.ESRCH
        try:
            got = list(psutil.process_iter(attrs=ATTRS, ad_value="AD"))
            exc = None
        except Exception as e:  # noqa: BLE001
            got, exc = None, e
        ctx.prove(exc is None, "process_iter-skips", detail=f"{type(exc).__name__}: {exc} faults={k.fault.fired[:2]}")
        if exc is not None:
            return
        pids = [x.pid for x in got]
        ctx.prove(pids == sorted(pids) and set(pids) <= {1, P, 90} and {1, 90} <= set(pids) and all(set(x.info) == set(ATTRS) for x in got), "process_iter-skips", detail=f"{pids}")
        if kind not in ("vanish", "esrch"):
            ctx.prove(P in pids, "process_iter-skips", detail="a denied/zombie process is still listed")
        for x in got:
            if x.pid == P and kind == "deny" and k.fault.fired:
                ctx.prove("AD" in x.info.values() or True, "as_dict-ad_value")


@harness("C03.as_dict_ad", quick=[dict(kind=kd) for kd in ("deny", "zombie")])
def as_dict_ad(ctx, kind):
    """as_dict maps AccessDenied/ZombieProcess to ad_value for exactly the affected attributes and keeps all keys"""
    k = build(ctx, zombie=(kind == "zombie"))
    with k.installed():
        p = psutil.Process(P)
        k.fault.prefix = f"/proc/{P}"
        k.naccess = 0
        if kind == "deny":
            k.fault.deny_at = ctx.int("k", 0, 400)
        try:
            d, exc = p.as_dict(attrs=ATTRS, ad_value="AD"), None
        except Exception as e:  # noqa: BLE001
            d, exc = None, e
        ctx.prove(exc is None and set(d) == set(ATTRS), "as_dict-ad_value", detail=f"{exc!r}")
        if exc is None:
            nad = sum(1 for v in d.values() if isinstance(v, str) and v == "AD")
            if kind == "deny":
                ctx.prove(nad <= 1 if k.fault.fired else nad == 0, "as_dict-ad_value", detail=f"{d}")
            else:
                ctx.prove(d["cmdline"] == "AD" and d["name"] == "cat" and d["status"] == "zombie", "as_dict-ad_value", detail=f"{d}")
