"""C06 — Per-process kernel facts are exact, whatever bytes the process name contains.

Real code executed: psutil.Process.name/ppid/status/cpu_times/create_time/cpu_num/terminal/num_threads/num_ctx_switches/uids/gids/threads
and the _pslinux.Process methods underneath (_parse_stat_file, _read_status_file, boot_time, wrap_exceptions), _psposix.get_terminal_map.
The compiled regular expressions of the status-file methods are replaced, in symbolic mode only, by SymPattern objects generated
from the *real* pattern source (re._parser), so an edited regex is what gets checked.
"""
import re

from psv import pattern, seq, simk, sym
from psv.run import harness
from psv.simk import _common, _pslinux, psutil

CLK = 100
BTIME = 1_700_000_000

META = dict(
    assumptions=[
        "/proc/<pid>/stat is `pid (comm) state f4 f5 ...` with comm raw (fs/proc/array.c); /proc/<pid>/status has `Name:\\t<comm>` with only newline and backslash escaped (seq_escape_str(.., \"\\n\\\\\"))",
        "comm is any byte string of length 0..15 without NUL; symbolic characters that go through the codec are ASCII (0x01..0x7f), non-UTF-8 names are concrete witnesses",
        "in the status-file harness the symbolic comm excludes the two escaped bytes (newline, backslash): their escaped forms are concrete witnesses",
        "regular expressions on symbolic text are executed by SymPattern, generated from the real compiled pattern and differentially tested against `re` at setup",
        "floats are exact reals (ticks/CLK, start/CLK + btime); counters up to 2^64-1",
    ],
    stubs=["open() of /proc/<pid>/{stat,status,task/<tid>/stat}, /proc/stat", "glob/os.stat over /dev/tty*, /dev/pts/*"],
    bounds=dict(quick=dict(comm_length_stat="0..6, 15", comm_length_status="0..8, 10", threads="2 threads, thread name length 0..4", numerals="[0, 2^64)"),
                thorough=dict(comm_length_stat="0..15", comm_length_status="0..15", threads="3 threads, thread name length 0..15", numerals="[0, 2^64)")),
    outside=["status-file methods for symbolic names longer than the stated length (path count grows with the number of patterns that can match inside the name)", "non-ASCII symbolic characters"],
    labels=["stat-name", "stat-fields-unshifted", "status-uids", "status-gids", "status-num_threads", "status-ctx_switches", "numerals-exact", "state-letter", "terminal", "named-thread-times", "main-thread"],
)

WITNESS_NAMES = [b"", b")", b"a) S 1", b"(((", b") R 0 0 0 0 0 0 0 0 0 0 99 99", b"\xff\xfe\xfd", b"caf\xc3\xa9", b"a\nb", b"tab\there", b"123456789012345", b"a b) (c d", b"\\"]


def swap_patterns(install):
    """replace the compiled regexes in the methods' __defaults__ by SymPattern built from the same pattern source"""
    saved = []
    for name in ("uids", "gids", "num_threads", "num_ctx_switches", "_get_eligible_cpus"):
        f = getattr(_pslinux.Process, name)
        inner = getattr(f, "__wrapped__", f)
        d = inner.__defaults__
        if d is None:
            continue
        saved.append((inner, d))
        if install:
            inner.__defaults__ = tuple(pattern.SymPattern(x) if isinstance(x, re.Pattern) else x for x in d)
    return saved


def escape_status(comm):
    """the kernel's escaping of comm on the Name: line (concrete names only)"""
    return comm.replace(b"\\", b"\\\\").replace(b"\n", b"\\n")


def _name_eq(ctx, got, comm):
    if isinstance(comm, bytes):
        want = comm.decode(_common.ENCODING, _common.ENCODING_ERRS)
        return got == want if isinstance(got, str) else sym.SymBool(seq.SymSeq.of(got).eq_term(want))
    want = seq.SymSeq(comm.items, "str")
    return sym.SymBool(seq.SymSeq.of(got).eq_term(want))


def _mk_comm(ctx, L, witness, lo=1, hi=0xFF, exclude=()):
    if witness is not None:
        return WITNESS_NAMES[witness]
    return seq.fresh(ctx, "comm", L, "bytes", lo=lo, hi=hi, exclude=exclude)


@harness("C06.stat_name", quick=[dict(L=L, witness=None) for L in (0, 1, 2, 3, 4, 6, 15)] + [dict(L=0, witness=i) for i in range(len(WITNESS_NAMES))],
         thorough=[dict(L=L, witness=None) for L in range(16)] + [dict(L=0, witness=i) for i in range(len(WITNESS_NAMES))])
def stat_name(ctx, L, witness):
    """stat-derived facts with a symbolic comm: every name leaves every field in its slot"""
    k = simk.Kernel(ctx)
    simk.system_files(k)
    simk.full_process(k, 77)
    comm = _mk_comm(ctx, L, witness)
    k.files["/proc/stat"] = f"cpu  1 2 3 4 5 6 7 8 9 10\ncpu0 1 2 3 4 5 6 7 8 9 10\nbtime {BTIME}\n"
    k.files["/proc/77/stat"] = simk.stat_record(k, 77, comm, b"S", {4: 31, 7: 34816, 14: 111, 15: 222, 16: 333, 17: 444, 22: 5000, 39: 3, 42: 77})
    k.files["/proc/77/cmdline"] = ""       # the 15-byte name extension through cmdline()[0] is C12's subject
    with k.installed():
        p = psutil.Process(77)
        nm, pp, st, ct, cr, cn, tt = ctx.guard("stat-no-exception", lambda: (p.name(), p.ppid(), p.status(), p.cpu_times(), p.create_time(), p.cpu_num(), p.terminal()))
    ctx.observe("stat", (nm, pp, st, tuple(ct), cr, cn, tt))
    ctx.prove(_name_eq(ctx, nm, comm), "stat-name")
    ctx.prove(ctx.all([pp == 31, st == psutil.STATUS_SLEEPING, ctx.eq(ct.user, 1.11), ctx.eq(ct.system, 2.22), ctx.eq(ct.children_user, 3.33), ctx.eq(ct.children_system, 4.44),
                       ctx.eq(ct.iowait, 0.77), ctx.eq(cr, 50 + BTIME), cn == 3, tt == "/dev/pts/0"]), "stat-fields-unshifted")


@harness("C06.status_name", quick=[dict(L=L, witness=None) for L in (0, 1, 2, 4, 6, 8, 10)] + [dict(L=0, witness=i) for i in range(len(WITNESS_NAMES))],
         thorough=[dict(L=L, witness=None) for L in range(16)] + [dict(L=0, witness=i) for i in range(len(WITNESS_NAMES))], timeout_ms=20000)
def status_name(ctx, L, witness):
    """status-derived facts with the (symbolic) comm on the Name: line"""
    k = simk.Kernel(ctx)
    simk.system_files(k)
    simk.full_process(k, 77)
    comm = _mk_comm(ctx, L, witness, hi=0x7F, exclude=(10, 92))
    shown = escape_status(comm) if isinstance(comm, bytes) else comm
    uid = [ctx.int(f"uid{i}", 0, 2**32 - 1) for i in range(4)]
    gid = [ctx.int(f"gid{i}", 0, 2**32 - 1) for i in range(4)]
    nthr, vol, nvol = ctx.int("threads", 1, 2**22), ctx.int("vol", 0, 2**64 - 1), ctx.int("nvol", 0, 2**64 - 1)
    status = (b"Name:\t" + shown + b"\nUmask:\t0022\nState:\tS (sleeping)\nTgid:\t77\nNgid:\t0\nPid:\t77\nPPid:\t1\nTracerPid:\t0\n"
              b"Uid:\t" + b"\t".join(k.num(x) for x in uid) + b"\nGid:\t" + b"\t".join(k.num(x) for x in gid) + b"\nFDSize:\t64\nGroups:\t4 24\n"
              b"Threads:\t" + k.num(nthr) + b"\nSigQ:\t0/100\nCpus_allowed:\tf\nCpus_allowed_list:\t0-3\nvoluntary_ctxt_switches:\t" + k.num(vol) + b"\nnonvoluntary_ctxt_switches:\t" + k.num(nvol) + b"\n")
    k.files["/proc/77/status"] = status
    saved = swap_patterns(ctx.symbolic)
    try:
        with k.installed():
            p = psutil.Process(77)
            u, g, n, c = ctx.guard("status-no-exception", lambda: (p.uids(), p.gids(), p.num_threads(), p.num_ctx_switches()))
    finally:
        for inner, d in saved:
            inner.__defaults__ = d
    ctx.observe("status", (tuple(u), tuple(g), n, tuple(c)))
    ctx.prove(ctx.all([ctx.eq(u.real, uid[0]), ctx.eq(u.effective, uid[1]), ctx.eq(u.saved, uid[2])]), "status-uids")
    ctx.prove(ctx.all([ctx.eq(g.real, gid[0]), ctx.eq(g.effective, gid[1]), ctx.eq(g.saved, gid[2])]), "status-gids")
    ctx.prove(ctx.eq(n, nthr), "status-num_threads")
    ctx.prove(ctx.all([ctx.eq(c.voluntary, vol), ctx.eq(c.involuntary, nvol)]), "status-ctx_switches")


STATES = "RSDTtZXxKWIPQ"
WANT_STATUS = dict(R="running", S="sleeping", D="disk-sleep", T="stopped", t="tracing-stop", Z="zombie", X="dead", x="dead", K="wake-kill", W="waking", I="idle", P="parked")


@harness("C06.numerals", quick=[dict(nfields=n) for n in (52, 44, 41)], thorough=[dict(nfields=n) for n in (52, 50, 47, 44, 42, 41, 40, 39)])
def numerals(ctx, nfields):
    """every numeral of the stat record symbolic; record ending after man-proc field `nfields` (old kernels lack the tail)"""
    k = simk.Kernel(ctx)
    simk.system_files(k)
    simk.full_process(k, 77)
    f = {i: ctx.int(f"f{i}", 0, 2**64 - 1) for i in (4, 14, 15, 16, 17, 22, 39, 42)}
    # 1083392 = 0x108800: pseudo-terminal 256 (major 136, minor 256 -- the minor's upper bits sit above the major in the encoding)
    tty = ctx.choice("tty", [34816, 34817, 1025, 0, 999999, 1083392])
    f[7] = tty
    letter = ctx.choice("state", list(STATES))
    btime = ctx.int("btime", 0, 2**40)
    k.files["/proc/stat"] = b"cpu  1 2 3 4 5 6 7 8 9 10\nbtime " + k.num(btime) + b"\n"
    k.files["/proc/77/stat"] = simk.stat_record(k, 77, b"a) b (c", letter.encode(), f, last=nfields)
    k.files["/dev/pts/1"] = ""
    k.stats["/dev/pts/1"] = simk.StatResult(0o020620, rdev=34817)
    k.files["/dev/tty1"] = ""
    k.stats["/dev/tty1"] = simk.StatResult(0o020620, rdev=1025)
    k.files["/dev/pts/256"] = ""
    k.stats["/dev/pts/256"] = simk.StatResult(0o020620, rdev=1083392)
    with k.installed():
        try:
            p = psutil.Process(77)
        except psutil.ZombieProcess:
            p = None
        if p is None:
            ctx.prove(False, "zombie-can-be-instantiated")
            return
        try:
            pp, st, ct, cr, cn, tt = p.ppid(), p.status(), p.cpu_times(), p.create_time(), p.cpu_num(), p.terminal()
        except Exception as e:  # noqa: BLE001
            ctx.prove(False, "numerals-exact", detail=f"{type(e).__name__}: {e}")
            return
    ctx.observe("numerals", (pp, st, tuple(ct), cr, cn, tt))
    io = ctx.div(f[42], CLK) if nfields >= 42 else 0
    ctx.prove(ctx.all([ctx.eq(pp, f[4]), ctx.eq(ct.user, ctx.div(f[14], CLK)), ctx.eq(ct.system, ctx.div(f[15], CLK)), ctx.eq(ct.children_user, ctx.div(f[16], CLK)),
                       ctx.eq(ct.children_system, ctx.div(f[17], CLK)), ctx.eq(ct.iowait, io), ctx.eq(cr, ctx.div(f[22], CLK) + btime), ctx.eq(cn, f[39])]), "numerals-exact")
    ctx.prove(st == WANT_STATUS.get(letter, st) and (letter in WANT_STATUS or st == "?"), "state-letter", detail=f"{letter} -> {st}")
    ctx.prove(tt == {34816: "/dev/pts/0", 34817: "/dev/pts/1", 1025: "/dev/tty1", 1083392: "/dev/pts/256"}.get(tty), "terminal", detail=f"{tty} -> {tt}")


@harness("C06.terminal_history", quick=[dict(n=2), dict(n=3)], thorough=[dict(n=2), dict(n=3), dict(n=4)])
def terminal_history(ctx, n):
    """terminal() follows the kernel's tty number at every call of a history: n processes ask in turn, and between two calls a
    terminal device may appear (a pseudo-terminal opened later than psutil's first look at /dev) -- which process sits on which
    terminal, and when each device appears, are symbolic"""
    k = simk.Kernel(ctx)
    simk.system_files(k)          # /dev/pts/0 (rdev 34816) exists from the start
    DEV = {34816: "/dev/pts/0", 34817: "/dev/pts/1", 1025: "/dev/tty1"}
    LATE = [34817, 1025]
    appears = {d: ctx.choice(f"appears_{d}", list(range(n + 1))) for d in LATE}     # before which call (n = never)
    ttys = [ctx.choice(f"tty{i}", [0, 34816, 34817, 1025]) for i in range(n)]
    for i in range(n):
        simk.full_process(k, 70 + i)
        k.files[f"/proc/{70 + i}/stat"] = simk.stat_record(k, 70 + i, b"sh", b"S", {4: 1, 7: ttys[i], 22: 100 + i})
    present = {34816}
    with k.installed():
        for i in range(n):
            for d in LATE:
                if appears[d] == i:
                    k.files[DEV[d]] = ""
                    k.stats[DEV[d]] = simk.StatResult(0o020620, rdev=d)
                    present.add(d)
            # (a tty number whose device node is not visible yet -- e.g. a pseudo-terminal of another mount namespace -- has no path: None)
            got = ctx.guard("terminal-history", psutil.Process(70 + i).terminal)
            ctx.prove(got == (DEV.get(ttys[i]) if ttys[i] in present else None), "terminal-history", detail=f"call {i}: tty_nr {ttys[i]} -> {got!r}; devices that appeared after psutil's first look: {[DEV[d] for d in LATE if 0 < appears[d] <= i]}")


@harness("C06.threads", quick=[dict(L=L, nthreads=2, witness=None) for L in (0, 1, 2, 4)] + [dict(L=0, nthreads=2, witness=i) for i in range(len(WITNESS_NAMES))]
         + [dict(L=1, nthreads=3, witness=None, gone=g) for g in ("open-ENOENT", "open-ESRCH", "read-ESRCH")] + [dict(L=1, nthreads=2, witness=None, oneshot=True)],
         thorough=[dict(L=L, nthreads=3, witness=None) for L in range(16)] + [dict(L=0, nthreads=3, witness=i) for i in range(len(WITNESS_NAMES))]
         + [dict(L=L, nthreads=n, witness=None, gone=g) for g in ("open-ENOENT", "open-ESRCH", "read-ESRCH") for L in (0, 2) for n in (2, 3, 4)] + [dict(L=L, nthreads=3, witness=None, oneshot=True) for L in (0, 3)])
def threads(ctx, L, nthreads, witness, gone=None, oneshot=False):
    """threads(): (tid, utime/CLK, stime/CLK) in tid order, whatever the thread names contain.
    gone: one thread other than the main one (which one is symbolic) exits while the task list is being read -- its stat file
    cannot be opened any more, or opens and then fails to read with ESRCH; the other threads are still reported exactly"""
    k = simk.Kernel(ctx)
    simk.system_files(k)
    simk.full_process(k, 77)
    tn = _mk_comm(ctx, L, witness)
    tids = [77 + i for i in range(nthreads)]
    ticks = {t: (ctx.int(f"ut{t}", 0, 2**64 - 1), ctx.int(f"st{t}", 0, 2**64 - 1)) for t in tids}
    k.dirs["/proc/77/task"] = [str(t) for t in reversed(tids)]
    for j, t in enumerate(tids):
        name = b"main" if j == 0 else (tn if j == 1 else b"w) k (r")
        k.files[f"/proc/77/task/{t}/stat"] = simk.stat_record(k, t, name, b"S", {4: 1, 14: ticks[t][0], 15: ticks[t][1], 16: 9, 17: 9})
    if gone:
        import errno as _errno

        victim = ctx.choice("exited_thread", tids[1:])
        path = f"/proc/77/task/{victim}/stat"
        k.files[path] = simk.fails_on_read(k, path) if gone == "read-ESRCH" else simk.oserr(_errno.ENOENT if gone == "open-ENOENT" else _errno.ESRCH, path)
    with k.installed():
        p77 = psutil.Process(77)
        if oneshot:
            # inside a oneshot() block that has already parsed /proc/77/stat (whose utime/stime are the PROCESS totals, different
            # numbers from the main thread's own record under task/77/stat)
            with p77.oneshot():
                p77.name(), p77.cpu_times()
                th = ctx.guard("named-thread-times", p77.threads)
        else:
            th = ctx.guard("thread-exit-tolerated" if gone else "named-thread-times", p77.threads)
    ctx.observe("threads", [tuple(x) for x in th])
    if gone:
        tids = [t for t in tids if t != victim]
        nthreads -= 1
    ctx.prove(len(th) == nthreads and [x.id for x in th] == tids, "thread-exit-tolerated" if gone else "threads-in-tid-order", detail=f"{[x.id for x in th]} vs {tids}")
    if len(th) != nthreads:
        return
    ctx.prove(ctx.all([ctx.eq(th[0].user_time, ctx.div(ticks[77][0], CLK)), ctx.eq(th[0].system_time, ctx.div(ticks[77][1], CLK))]), "main-thread")
    for j in range(1, nthreads):
        t = tids[j]
        ctx.prove(ctx.all([ctx.eq(th[j].user_time, ctx.div(ticks[t][0], CLK)), ctx.eq(th[j].system_time, ctx.div(ticks[t][1], CLK))]), "named-thread-times", detail=f"thread {t}")
