"""C05 — children(), parent() and parents() describe the real process tree.

Real code executed: psutil.Process.children/parent/parents/ppid/create_time/is_running/_raise_if_pid_reused/__init__/__eq__,
psutil.pids, _pslinux.ppid_map/pids/Process.ppid/_parse_stat_file/create_time/boot_time, wrap_exceptions.
"""
import errno

from psv import simk
from psv.run import harness
from psv.simk import _psposix, psutil

UNLISTED = 99

META = dict(
    assumptions=[
        "the parent PID of every process is one of the listed PIDs or one unlisted PID (symbolic); start ticks are unconstrained integers, so every ordering and every tie is covered",
        "two incarnations of one PID have different start ticks (psutil's documented identity assumption)",
        "parents(): a parent-link cycle is not made entirely of processes started in the same tick (otherwise the chain of parent() is infinite by definition)",
        "where the statement does not say whether descendants of a recycled (older) intermediate process count, both readings are accepted: required = reachable through processes not older than the caller, allowed = graph-reachable and not older than the caller",
    ],
    stubs=["os.listdir('/proc')", "open() of /proc/<pid>/stat and /proc/stat", "cext.check_pid_range"],
    bounds=dict(quick=dict(processes="1..3 (parent vector and start ticks symbolic; n^n graphs enumerated by the solver, orderings decided symbolically)"), thorough=dict(processes="1..5 (children), 1..5 (parents)")),
    outside=["more than 5 processes", "the table changing while it is being walked, other than one process vanishing"],
    labels=["each-once", "never-itself", "never-older-than-caller", "direct-children-included", "only-direct-children", "only-reachable", "reachable-included", "terminates", "parent", "parents-chain",
            "recycled-caller-NoSuchProcess", "ancestor-vanishing-is-not-an-error"],
)


NASTY = [b"proc", b"x) S 1 (y", b"a) b", b"(( ) )"]


def world(ctx, n, with_vanish=False, names=False):
    """names: one process (symbolic which) carries a name from NASTY -- parentheses and blanks that imitate the end of the name field
    and a following state letter and parent PID"""
    k = simk.Kernel(ctx)
    simk.system_files(k)
    pids = [10 + 3 * i for i in range(n)]
    pp, st = {}, {}
    odd = ctx.choice("odd_named", pids) if names else None
    oddname = ctx.choice("odd_name", NASTY[1:]) if names else None
    for p in pids:
        pp[p] = ctx.int(f"ppid{p}", 0, 100)
        ctx.assume(ctx.any([ctx.eq(pp[p], q) for q in pids] + [ctx.eq(pp[p], UNLISTED)]))
        st[p] = ctx.int(f"start{p}", 0, 10**6)
        simk.full_process(k, p)
        k.files[f"/proc/{p}/stat"] = simk.stat_record(k, p, oddname if p == odd else b"proc", b"S", {4: pp[p], 22: st[p]})
    k.dirs["/proc"] = [str(p) for p in pids] + ["self", "stat", "net"]
    # what else the kernel publishes about the tree (CONFIG_PROC_CHILDREN): /proc/<p>/task/<tid>/children lists the children THAT
    # THREAD forked -- every process here has two threads, and which thread forked a child is symbolic.  Rendered only if read.
    by_second = {}

    def children_file(p, second):
        def render():
            out = []
            for c in pids:
                if c != p and bool(ctx.eq(pp[c], p)):
                    if c not in by_second:
                        by_second[c] = ctx.flag(f"forked_by_second_thread{c}")
                    if by_second[c] == second:
                        out.append(str(c))
            return (" ".join(out) + " ") if out else ""
        return render

    for p in pids:
        k.files[f"/proc/{p}/task/{p}/children"] = children_file(p, False)
        k.files[f"/proc/{p}/task/{p + 1}/children"] = children_file(p, True)
    return k, pids, pp, st


@harness("C05.children", quick=[dict(n=n, recursive=r) for n in (1, 2, 3) for r in (False, True)] + [dict(n=2, recursive=r, names=True) for r in (False, True)],
         thorough=[dict(n=n, recursive=r) for n in (1, 2, 3, 4, 5) for r in (False, True)] + [dict(n=n, recursive=r, names=True) for n in (2, 3) for r in (False, True)])
def children(ctx, n, recursive, names=False):
    k, pids, pp, st = world(ctx, n, names=names)
    caller = pids[0]
    with k.installed():
        me = psutil.Process(caller)
        n0 = k.naccess_total
        k.access_budget = n0 + 40 * n * n + 200
        try:
            got = ctx.guard("no-exception", me.children, recursive=recursive, expect=(simk.AccessBudgetExceeded,))
        except simk.AccessBudgetExceeded as e:
            ctx.prove(False, "terminates", detail=f"children(): {e}")
            return
        cost = k.naccess_total - n0
    got_pids = [c.pid for c in got]
    ctx.observe("children", got_pids)

    check_children(ctx, pids, pp, st, caller, got_pids, recursive, cost=cost, n=n)


def check_children(ctx, pids, pp, st, caller, got_pids, recursive, cost=None, n=None, victim=None):
    """the statement's oracle for children(); `victim` = a process that vanished while the tree was walked: it may or may not be
    reported itself, and processes reachable only through it may or may not be (the statement is silent), everything else as usual"""
    def is_parent(child, parent):
        return bool(pp[child] == parent)         # decided (forks in symbolic mode)

    young = {p: (st[p] >= st[caller]) for p in pids}
    if cost is not None:
        ctx.prove(cost <= 6 * n * n + 12, "terminates", detail=f"{cost} OS accesses")
    ctx.prove(len(got_pids) == len(set(got_pids)), "each-once", detail=f"{got_pids}")
    ctx.prove(caller not in got_pids, "never-itself", detail=f"{got_pids}")
    ctx.prove(ctx.all([young[p] for p in got_pids]), "never-older-than-caller")
    if not recursive:
        for p in pids:
            if p == caller:
                continue
            direct = is_parent(p, caller)
            if p != victim:
                ctx.prove(ctx.implies(ctx.all([direct, young[p]]), p in got_pids), "direct-children-included", detail=f"{p} missing from {got_pids}" + (f" (vanished: {victim})" if victim else ""))
            ctx.prove(ctx.implies(p in got_pids, direct), "only-direct-children")
    else:
        edges = {p: [q for q in pids if q != p and is_parent(q, p)] for p in pids}

        def reach(filt):
            seen, stack = set(), [caller]
            while stack:
                x = stack.pop()
                for c in edges[x]:
                    if c not in seen and c != caller and filt(c):
                        seen.add(c)
                        stack.append(c)
            return seen

        allowed = reach(lambda c: True)
        ctx.prove(set(got_pids) - {caller} <= allowed, "only-reachable", detail=f"{got_pids} vs {sorted(allowed)}")
        req = reach(lambda c: bool(young[c]) and c != victim)
        ctx.prove(req <= set(got_pids), "reachable-included", detail=f"{got_pids} vs {sorted(req)}" + (f" (vanished: {victim})" if victim else ""))


@harness("C05.children_vanish", quick=[dict(n=3, recursive=r) for r in (False, True)], thorough=[dict(n=n, recursive=r) for n in (3, 4) for r in (False, True)])
def children_vanish(ctx, n, recursive):
    """one process other than the caller vanishes between the snapshot of the table and the visit"""
    k, pids, pp, st = world(ctx, n)
    caller = pids[0]
    victim = ctx.choice("victim", pids[1:])
    reads = {"n": 0}
    orig = k.files[f"/proc/{victim}/stat"]
    after = ctx.choice("vanish_after_reads", [0, 1, 2])

    def stat():
        reads["n"] += 1
        if reads["n"] > after:
            raise simk.oserr(errno.ENOENT, f"/proc/{victim}/stat")
        return orig

    k.files[f"/proc/{victim}/stat"] = stat
    with k.installed():
        me = psutil.Process(caller)
        got = ctx.guard("no-exception", me.children, recursive=recursive)
    got_pids = [c.pid for c in got]
    check_children(ctx, pids, pp, st, caller, got_pids, recursive, victim=victim)


@harness("C05.parent", quick=[dict(n=n) for n in (1, 2, 3)], thorough=[dict(n=n) for n in (1, 2, 3, 4)])
def parent(ctx, n):
    k, pids, pp, st = world(ctx, n)
    ci = ctx.choice("caller", list(range(n)))
    caller = pids[ci]
    with k.installed():
        me = psutil.Process(caller)
        par = ctx.guard("no-exception", me.parent)
    ctx.observe("parent", par.pid if par is not None else None)
    if caller == pids[0]:
        ctx.prove(par is None, "parent", detail="lowest pid has no parent")
        return
    ppid = pp[caller]
    listed = [q for q in pids if bool(ppid == q)]
    if not listed:
        ctx.prove(par is None, "parent", detail="unlisted parent pid")
    else:
        q = listed[0]
        older = bool(st[q] <= st[caller])
        ctx.prove((par is not None and par.pid == q) if older else par is None, "parent", detail=f"ppid={q} parent-not-younger={older} got={par.pid if par else None}")


@harness("C05.parents", quick=[dict(n=n) for n in (2, 3)], thorough=[dict(n=n) for n in (2, 3, 4, 5)])
def parents(ctx, n):
    k, pids, pp, st = world(ctx, n)
    caller = pids[-1]
    # reference chain: iterate the statement's parent() rule
    chain, cur, steps = [], caller, 0
    while True:
        if cur == pids[0]:
            break
        q = [x for x in pids if bool(pp[cur] == x)]
        if not q or not bool(st[q[0]] <= st[cur]):
            break
        cur = q[0]
        chain.append(cur)
        steps += 1
        if steps > n + 1:
            ctx.assume(False)       # a cycle made entirely of same-tick processes: excluded (see assumptions)
    k.access_budget = 40 * n * n + 200
    with k.installed():
        me = psutil.Process(caller)
        try:
            got = ctx.guard("no-exception", me.parents, expect=(simk.AccessBudgetExceeded,))
        except simk.AccessBudgetExceeded as e:
            ctx.prove(False, "terminates", detail=f"parents(): {e}")
            return
    ctx.observe("parents", [p.pid for p in got])
    ctx.prove([p.pid for p in got] == chain, "parents-chain", detail=f"{[p.pid for p in got]} vs {chain}")


@harness("C05.parent_vanish", quick=[dict(which=w) for w in ("parent", "parents")])
def parent_vanish(ctx, which):
    """an ancestor exits while parent()/parents() is looking at it (its stat record answers a symbolic number of reads, then ENOENT):
    never an exception for a live caller; the answer is the one with the ancestor still there or the one with it gone"""
    k, pids, pp, st = world(ctx, 3)
    caller = pids[-1]
    victim = pids[1]          # (the lowest PID is the one psutil treats as the root of every chain: it stays)
    after = ctx.choice("vanish_after_reads", [0, 1, 2, 3])
    reads = {"n": 0}
    orig = k.files[f"/proc/{victim}/stat"]

    def stat():
        reads["n"] += 1
        if reads["n"] > after:
            k.procs.discard(victim)
            raise simk.oserr(errno.ENOENT, f"/proc/{victim}/stat")
        return orig

    k.files[f"/proc/{victim}/stat"] = stat
    chain, cur, steps = [], caller, 0
    while True:       # reference chain: the statement's parent() rule iterated, as in C05.parents
        if cur == pids[0]:
            break
        q = [x for x in pids if bool(pp[cur] == x)]
        if not q or not bool(st[q[0]] <= st[cur]):
            break
        cur = q[0]
        chain.append(cur)
        steps += 1
        if steps > 4:
            ctx.assume(False)       # a cycle made entirely of same-tick processes: excluded (see assumptions)
    k.access_budget = 600
    with k.installed():
        me = psutil.Process(caller)
        if which == "parent":
            got = ctx.guard("ancestor-vanishing-is-not-an-error", me.parent)
            gp = got.pid if got is not None else None
            full = chain[0] if chain else None
            ctx.prove(gp == full or (gp is None and full == victim), "ancestor-vanishing-is-not-an-error", detail=f"parent() -> {gp}; with the ancestor alive: {full}; vanishing: {victim} after {after} reads")
        else:
            got = [x.pid for x in ctx.guard("ancestor-vanishing-is-not-an-error", me.parents)]
            i = chain.index(victim) if victim in chain else len(chain)
            cut = chain[:i]            # gone before it was looked at; chain[:i + 1]: seen, then gone before its own parent was asked
            ctx.prove(got in (chain, cut, chain[:i + 1]), "ancestor-vanishing-is-not-an-error", detail=f"parents() -> {got}; with the ancestor alive: {chain}; vanishing: {victim} after {after} reads")


@harness("C05.recycled_caller", quick=[dict(which=w, waited=wd) for w in ("children", "children_r", "parent", "parents") for wd in (False, True)])
def recycled_caller(ctx, which, waited=False):
    """all of them raise NoSuchProcess when the caller's own PID has been recycled (detected by is_running()); waited: the original
    process was seen to exit by a completed wait() on the same object before its PID was handed out again"""
    k, pids, pp, st = world(ctx, 3)
    caller = pids[1]
    new_start = ctx.int("new_start", 0, 10**6)
    ctx.assume(ctx.neg(ctx.eq(new_start, st[caller])))

    def waitpid(pid, flags):
        raise ChildProcessError(errno.ECHILD, "No child processes")

    k.waitpid_fn = waitpid
    d = _psposix.wait_pid.__defaults__
    assert len(d) == 7, d
    with k.installed(extra=[(_psposix.wait_pid, "__defaults__", (d[0], d[1], waitpid, k.timer, d[4], k.sleep, d[6]))]):
        me = psutil.Process(caller)
        if waited:
            record, listing = k.files[f"/proc/{caller}/stat"], list(k.dirs["/proc"])
            del k.files[f"/proc/{caller}/stat"]
            k.dirs["/proc"] = [x for x in listing if x != str(caller)]
            k.procs.discard(caller)
            rc = me.wait(0)
            ctx.prove(rc is None, "recycled-caller-NoSuchProcess", detail=f"wait(0) on a vanished non-child -> {rc!r}")
            k.dirs["/proc"] = listing
            k.procs.add(caller)
        k.files[f"/proc/{caller}/stat"] = simk.stat_record(k, caller, b"other", b"S", {4: pp[caller], 22: new_start})
        alive = me.is_running() if ctx.flag("is_running_asked_first") else False
        try:
            {"children": lambda: me.children(), "children_r": lambda: me.children(recursive=True), "parent": me.parent, "parents": me.parents}[which]()
            exc = None
        except psutil.NoSuchProcess as e:
            exc = e
    ctx.prove(alive is False and exc is not None and exc.pid == caller, "recycled-caller-NoSuchProcess", detail=f"{which}: waited={waited} is_running={alive} exc={exc!r}")


@harness("C05.after_iter", quick=[dict(which=w) for w in ("parent", "parents", "children", "children_r")] + [dict(which=w, clock=True) for w in ("parent", "children")], thorough=[dict(which=w, n=n) for w in ("parent", "parents", "children", "children_r") for n in (3, 4)])
def after_iter(ctx, which, n=3, clock=False):
    """the answers describe the process table as it is NOW, whatever psutil was asked before: first process_iter(attrs=[...]) fills
    its cache (objects with create_time / ppid already evaluated), then one PID other than the caller's is recycled by a new process
    (fresh start ticks and parent, both symbolic), then the tree is queried"""
    k, pids, pp, st = world(ctx, n)
    caller = pids[-1] if which in ("parent", "parents") else pids[0]
    with k.installed():
        attrs = ctx.choice("attrs", [["create_time", "ppid"], ["name"], None])
        warm = list(psutil.process_iter(attrs)) if attrs else list(psutil.process_iter())
        me_cached = [p for p in warm if p.pid == caller][0]
        victim = ctx.choice("recycled", [p for p in pids if p != caller])
        new_start = ctx.int("new_start", 0, 10**6)
        ctx.assume(ctx.neg(ctx.eq(new_start, st[victim])))
        new_pp = ctx.int("new_ppid", 0, 100)
        ctx.assume(ctx.any([ctx.eq(new_pp, q) for q in pids] + [ctx.eq(new_pp, UNLISTED)]))
        st[victim], pp[victim] = new_start, new_pp
        k.files[f"/proc/{victim}/stat"] = simk.stat_record(k, victim, b"other", b"S", {4: new_pp, 22: new_start})
        if clock:
            # the system clock is stepped (the kernel's btime line changes; nobody's start ticks do) and, optionally, somebody asks
            # psutil.boot_time(): who is older than whom does not depend on either
            nb = ctx.int("btime_after_step", 10**5, 2 * 10**6)
            k.files["/proc/stat"] = b"cpu  1 2 3 4 5 6 7 8 9 10\ncpu0 1 2 3 4 5 6 7 8 9 10\nbtime " + k.num(nb) + b"\n"
            if ctx.flag("boot_time_called"):
                psutil.boot_time()
        me = me_cached if ctx.flag("use_cached_object") else psutil.Process(caller)
        if which in ("children", "children_r"):
            got = ctx.guard("no-exception", me.children, recursive=(which == "children_r"))
            check_children(ctx, pids, pp, st, caller, [c.pid for c in got], which == "children_r")
        elif which == "parent":
            par = ctx.guard("no-exception", me.parent)
            ppid = pp[caller]
            listed = [q for q in pids if bool(ppid == q)]
            if caller == pids[0] or not listed:
                ctx.prove(par is None, "parent", detail="no listed parent")
            else:
                q = listed[0]
                older = bool(st[q] <= st[caller])
                ctx.prove((par is not None and par.pid == q and par.is_running()) if older else par is None, "parent",
                          detail=f"ppid={q} parent-not-younger={older} got={par.pid if par is not None else None}")
        else:
            chain, cur, steps = [], caller, 0
            while cur != pids[0]:
                q = [x for x in pids if bool(pp[cur] == x)]
                if not q or not bool(st[q[0]] <= st[cur]):
                    break
                cur = q[0]
                chain.append(cur)
                steps += 1
                if steps > n + 1:
                    ctx.assume(False)
            got = ctx.guard("no-exception", me.parents)
            ctx.prove([p.pid for p in got] == chain, "parents-chain", detail=f"{[p.pid for p in got]} vs {chain}")


@harness("C05.children_twice", quick=[dict(recursive=r) for r in (False, True)], thorough=[dict(recursive=r, n=n) for r in (False, True) for n in (3, 4)])
def children_twice(ctx, recursive, n=3):
    """children() asked twice with the tree changing in between while the SET of PIDs stays the same (a process exits, stays listed as
    a zombie and its child is re-parented; or a PID is recycled between the calls): the second answer describes the new tree"""
    k, pids, pp, st = world(ctx, n)
    caller = pids[0]
    with k.installed():
        me = psutil.Process(caller)
        ctx.guard("no-exception", me.children, recursive=recursive)
        moved = ctx.choice("reparented", pids[1:])
        new_pp = ctx.int("new_ppid", 0, 100)
        ctx.assume(ctx.any([ctx.eq(new_pp, q) for q in pids] + [ctx.eq(new_pp, UNLISTED)]))
        pp[moved] = new_pp
        if ctx.flag("pid_recycled"):          # not a re-parenting: another process has taken the PID
            ns = ctx.int("new_start", 0, 10**6)
            ctx.assume(ctx.neg(ctx.eq(ns, st[moved])))
            st[moved] = ns
        k.files[f"/proc/{moved}/stat"] = simk.stat_record(k, moved, b"proc", b"S", {4: pp[moved], 22: st[moved]})
        got = ctx.guard("no-exception", me.children, recursive=recursive)
    check_children(ctx, pids, pp, st, caller, [c.pid for c in got], recursive)
