"""C10 — nowrap=True counters never decrease while their device stays present.

Real code executed: psutil.net_io_counters/disk_io_counters (+ their cache_clear partials), _common.wrap_numbers,
_WrapNumbers.run/_add_dict/_remove_dead_reminders/cache_clear.  The platform functions that *parse* the kernel tables
are replaced by stubs returning the symbolic raw tuples (their parsing is C09's subject).
"""
from psv import simk
from psv.run import harness
from psv.simk import _common, _pslinux, psutil

ALL_EVENTS = ["net", "disk", "net_raw", "disk_raw", "clear_net", "clear_disk"]

META = dict(
    crosshair="c10.py",
    assumptions=[
        "the history that matters for a function is the sequence of its nowrap=True calls (nowrap=False calls neither read nor update it)",
        "a snapshot that lists no device at all counts as every device being absent",
        "raw counters are arbitrary non-negative integers (any number of wraps, any magnitude below 2^64)",
    ],
    stubs=["_pslinux.net_io_counters / _pslinux.disk_io_counters return the symbolic raw dict of the step (parsing is covered by C09)"],
    bounds=dict(
        quick=dict(history="K<=3 public calls/cache_clear events (K=4 for one device, one field)", devices="1..2 with symbolic presence per call", fields_symbolic="1..2 per device (the others constant)"),
        thorough=dict(history="K<=4 (K=5 for one device, one field, one function)", devices="1..2", fields_symbolic="1..2", inductive="one run() step from an arbitrary cache state satisfying the representation invariant"),
    ),
    outside=["more than 2 devices / longer histories (the inductive step harness covers arbitrary history length for one run() call)", "more than 2 threads / 2 pre-emptions; races inside one source line"],
    labels=["value-is-raw-plus-offsets", "non-decreasing-while-present", "nowrap-false-is-raw", "empty-dict", "inductive-step", "inductive-invariant", "threads-equal-a-serial-order"],
)


def _last(outs, fn):
    for f, o in reversed(outs):
        if f == fn:
            return o
    return {}


@harness("C10.history",
         quick=[dict(K=3, ndev=1, nf=2, events=ALL_EVENTS), dict(K=3, ndev=2, nf=1, events=["net", "net_raw", "clear_net"]), dict(K=4, ndev=1, nf=1, events=["net", "disk"]),
                dict(K=3, ndev=2, nf=1, events=["net", "disk", "clear_disk"]), dict(K=5, ndev=1, nf=1, events=[], script=["disk", "disk", "clear_disk", "disk", "disk"]),
                dict(K=5, ndev=2, nf=1, events=[], script=["net", "net", "net", "net", "net"])],
         thorough=[dict(K=4, ndev=1, nf=1, events=ALL_EVENTS), dict(K=3, ndev=2, nf=2, events=ALL_EVENTS), dict(K=4, ndev=2, nf=1, events=["net", "net_raw", "clear_net"]),
                   dict(K=5, ndev=1, nf=1, events=["disk", "clear_disk"]), dict(K=4, ndev=2, nf=1, events=["net", "disk"])])
def history(ctx, K, ndev, nf, events, script=None):
    """script: a fixed list of events (raw values and presence stay symbolic, so e.g. "the same snapshot twice" is among the cases)"""
    k = simk.Kernel(ctx)
    DEV = [f"d{i}" for i in range(ndev)]
    ref = {"net": {}, "disk": {}}      # reference model per function: device -> (previous raw, offsets)
    outs = []
    extra = [(_pslinux, "net_io_counters", _pslinux.net_io_counters), (_pslinux, "disk_io_counters", _pslinux.disk_io_counters)]
    with k.installed(extra=extra):
        for step in range(K):
            ev = script[step] if script else ctx.choice(f"ev{step}", events)
            if ev.startswith("clear"):
                fn = ev.split("_")[1]
                (psutil.net_io_counters if fn == "net" else psutil.disk_io_counters).cache_clear()
                ref[fn] = {}
                continue
            fn = "net" if ev.startswith("net") else "disk"
            nowrap = not ev.endswith("_raw")
            width = 8 if fn == "net" else 9
            raw = {}
            for d in DEV:
                if ctx.flag(f"p{step}_{d}"):
                    raw[d] = tuple([ctx.int(f"r{step}_{d}_{i}", 0, 2**64 - 1) for i in range(nf)] + [5] * (width - nf))
            if fn == "net":
                _pslinux.net_io_counters = lambda raw=raw: dict(raw)
            else:
                _pslinux.disk_io_counters = lambda perdisk=False, raw=raw: dict(raw)
            got = psutil.net_io_counters(pernic=True, nowrap=nowrap) if fn == "net" else psutil.disk_io_counters(perdisk=True, nowrap=nowrap)
            ctx.observe(f"step{step}", sorted((d, tuple(v)) for d, v in got.items()))
            if not raw:
                ctx.prove(got == {}, "empty-dict")
                if nowrap:
                    ref[fn] = {}        # every device is absent in this snapshot, so each starts afresh later
                continue
            ctx.prove(set(got) == set(raw), "same-devices")
            if not nowrap:
                ctx.prove(ctx.all([ctx.eq(got[d][i], raw[d][i]) for d in raw for i in range(width)]), "nowrap-false-is-raw")
                continue
            st = ref[fn]
            new = {}
            for d in raw:
                if d in st:
                    prev, off = st[d]
                    off2 = [ctx.ite(raw[d][i] < prev[i], off[i] + prev[i], off[i]) for i in range(nf)]
                else:
                    off2 = [0] * nf
                new[d] = (raw[d], off2)
                ctx.prove(ctx.all([ctx.eq(got[d][i], raw[d][i] + off2[i]) for i in range(nf)] + [ctx.eq(got[d][i], 5) for i in range(nf, width)]), "value-is-raw-plus-offsets",
                          detail=f"step {step} {fn} device {d}")
                if d in st and d in _last(outs, fn):
                    pv = _last(outs, fn)[d]
                    ctx.prove(ctx.all([got[d][i] >= pv[i] for i in range(nf)]), "non-decreasing-while-present")
            ref[fn] = new
            outs.append((fn, {d: tuple(got[d][:nf]) for d in raw}))


@harness("C10.inductive", quick=[dict(ndev=2, nf=2)], thorough=[dict(ndev=2, nf=2), dict(ndev=3, nf=1)])
def inductive(ctx, ndev, nf):
    """One _WrapNumbers.run() step from an ARBITRARY cache state satisfying the representation invariant, with an
    arbitrary input: proves the step relation (value = raw + reminder', reminder' = reminder + old if raw < old) and
    that the invariant is re-established, which covers histories of any length."""
    import collections

    DEV = [f"d{i}" for i in range(ndev)]
    name = "fn"
    wn = _common._WrapNumbers()
    old, rem = {}, {}
    had_cache = ctx.flag("had_cache")
    if had_cache:
        cache = {}
        for d in DEV:
            if ctx.flag(f"old_{d}"):
                old[d] = tuple(ctx.int(f"o_{d}_{i}", 0, 2**64 - 1) for i in range(nf))
                cache[d] = old[d]
                for i in range(nf):
                    rem[(d, i)] = ctx.int(f"rem_{d}_{i}", 0, 2**70)       # invariant: reminders >= 0, only for cached keys
        wn.cache[name] = cache
        wn.reminders[name] = collections.defaultdict(int)
        wn.reminder_keys[name] = collections.defaultdict(set)
        for (d, i), v in rem.items():
            # invariant: a non-zero reminder is registered in reminder_keys (zero ones may or may not be)
            reg = ctx.flag(f"reg_{d}_{i}")
            if not reg:
                ctx.assume(ctx.eq(v, 0))
            else:
                wn.reminders[name][(d, i)] = v
                wn.reminder_keys[name][d].add((d, i))
    new = {}
    for d in DEV:
        if ctx.flag(f"new_{d}"):
            new[d] = tuple(ctx.int(f"n_{d}_{i}", 0, 2**64 - 1) for i in range(nf))
    if had_cache:
        for d in DEV:
            if d not in old and ctx.flag(f"stale_{d}"):     # a zero reminder left behind by a device that went away
                wn.reminders[name][(d, 0)] = 0
    got = wn.run(dict(new), name)
    ctx.observe("run", sorted(got.items()))
    ctx.prove(set(got) == set(new), "inductive-step")
    for d in new:
        for i in range(nf):
            r = rem.get((d, i), 0)
            exp_rem = ctx.ite(new[d][i] < old[d][i], r + old[d][i], r) if d in old else 0
            ctx.prove(ctx.eq(got[d][i], new[d][i] + exp_rem), "inductive-step")
            cur = wn.reminders[name].get((d, i), 0)
            ctx.prove(ctx.eq(cur, exp_rem), "inductive-invariant")
    # invariant re-established: cache = input; reminders >= 0; a non-zero reminder belongs to a present device and is registered
    ctx.prove(set(wn.cache[name]) == set(new) and ctx.all([ctx.eq(a, b) for d in new for a, b in zip(wn.cache[name][d], new[d])]), "inductive-invariant")
    for (d, i), v in list(wn.reminders[name].items()):
        ctx.prove(ctx.all([v >= 0, ctx.implies(ctx.neg(ctx.eq(v, 0)), d in new and (d, i) in wn.reminder_keys[name].get(d, ()))]), "inductive-invariant")
    for d, keys in list(wn.reminder_keys[name].items()):
        ctx.prove(not keys or d in new, "inductive-invariant")


@harness("C10.threads", quick=[dict(P=1), dict(P=1, clear=True)], thorough=[dict(P=2), dict(P=2, clear=True)], timeout_ms=5000)
def threads(ctx, P, clear=False):
    """two threads calling net_io_counters(nowrap=True) at once, each seeing its own kernel snapshot (source-line granularity,
    at most P pre-emptions): the pair of results equals that of one of the two serial orders"""
    from psv import sched

    k = simk.Kernel(ctx)
    s0 = ctx.int("s0", 0, 2**64 - 1)
    raw = {0: ctx.int("rawA", 0, 2**64 - 1), 1: ctx.int("rawB", 0, 2**64 - 1)}
    S = sched.Scheduler(ctx, budget=P)
    cur = {"raw": s0}

    def platform():
        v = cur["raw"] if (S.current is None or cur.get("serial")) else raw[S.current]
        return {"d0": (v, 5, 5, 5, 5, 5, 5, 5)}

    # every lock the code creates while the scheduler is installed is scheduler-aware too (threading is replaced in _common as well)
    extra = [(_pslinux, "net_io_counters", platform), (_common._wn, "lock", sched.SchedLock(S, False)), (_common, "threading", sched.ThreadingProxy(S))]
    if clear:
        # thread B clears the cache while thread A is inside a nowrap=True call: A's result is that of "A then clear" or "clear then A"
        # (raw + carry, or raw), nothing raises, and afterwards the history is gone or consistent (a further call works)
        with k.installed(extra=extra):
            psutil.net_io_counters(pernic=True, nowrap=True)                   # history: s0
            res = S.run([lambda: psutil.net_io_counters(pernic=True, nowrap=True)["d0"][0], lambda: psutil.net_io_counters.cache_clear()])
            cur["raw"], cur["serial"] = raw[0], True
            try:
                later, lexc = psutil.net_io_counters(pernic=True, nowrap=True)["d0"][0], None
            except Exception as e:  # noqa: BLE001
                later, lexc = None, e
        for i in (0, 1):
            ctx.prove(res[i][0] == "ok", "threads-no-exception", detail=f"{res[i][1]!r} pre-emptions {S.trace}")
        ctx.prove(lexc is None, "threads-no-exception", detail=f"the call after the concurrent cache_clear(): {lexc!r} pre-emptions {S.trace}")
        if res[0][0] == "ok":
            carry = ctx.ite(raw[0] < s0, s0, 0)
            ctx.prove(ctx.any([ctx.eq(res[0][1], raw[0] + carry), ctx.eq(res[0][1], raw[0])]), "threads-equal-a-serial-order", detail=f"pre-emptions {S.trace}")
            if lexc is None:
                ctx.prove(ctx.any([ctx.eq(later, raw[0] + carry), ctx.eq(later, raw[0])]), "threads-equal-a-serial-order", detail=f"later call; pre-emptions {S.trace}")
        return
    with k.installed(extra=extra):
        psutil.net_io_counters(pernic=True, nowrap=True)                       # history: s0
        res = S.run([lambda: psutil.net_io_counters(pernic=True, nowrap=True)["d0"][0], lambda: psutil.net_io_counters(pernic=True, nowrap=True)["d0"][0]])
    for i in (0, 1):
        ctx.prove(res[i][0] == "ok", "threads-no-exception", detail=f"{res[i][1]!r} pre-emptions {S.trace}")
    if res[0][0] != "ok" or res[1][0] != "ok":
        return

    def serial(first, second):
        off1 = ctx.ite(raw[first] < s0, s0, 0)
        off2 = off1 + ctx.ite(raw[second] < raw[first], raw[first], 0)
        out = {first: raw[first] + off1, second: raw[second] + off2}
        return ctx.all([ctx.eq(res[0][1], out[0]), ctx.eq(res[1][1], out[1])])

    ctx.prove(ctx.any([serial(0, 1), serial(1, 0)]), "threads-equal-a-serial-order", detail=f"pre-emptions {S.trace}")
