"""C14 — open_files(), num_fds() and io_counters() reflect the descriptor table exactly.

Real code executed: psutil.Process.open_files/num_fds/io_counters, _pslinux.Process.open_files/num_fds/io_counters,
file_flags_to_mode, readlink, _common.isfile_strict/path_exists_strict, wrap_exceptions, _raise_if_not_alive.
"""
import errno

from psv import simk, sym
from psv.run import harness
from psv.simk import _pslinux, psutil

O_APPEND = 0o2000

META = dict(
    crosshair="c14.py",
    assumptions=[
        "/proc/<pid>/fdinfo/<fd> starts with `pos:\\t<decimal>` and `flags:\\t0<octal>` (fs/proc/fd.c)",
        "a descriptor is a regular file iff stat() of its absolute link target says S_IFREG",
        "text->number boundary: digit placeholders valid in base 8 and 10; int() shadowed in the psutil modules' globals (also int(tok, 8))",
        "bit tests on the symbolic flag word are encoded with integer div/mod",
    ],
    stubs=["os.listdir/os.readlink/os.stat on /proc/<pid>/fd/*", "open() of /proc/<pid>/fdinfo/<fd>, /proc/<pid>/io, /proc/<pid>/stat"],
    bounds=dict(quick=dict(descriptors="0..2, each of 11 symbolic kinds", flags="[0, 2^22)", position="[0, 2^63]"), thorough=dict(descriptors="0..3", flags="[0, 2^22)", position="[0, 2^63]")),
    outside=["more than 3 descriptors", "link targets with symbolic characters (C12 covers link-target clean-up)"],
    labels=["mode-table", "no-exception-live-process", "num_fds", "exactly-regular-files", "entry-fields", "io-six-fields", "exit-mid-scan-NoSuchProcess"],
)


def _bit(ctx, x, mask):
    if ctx.symbolic:
        return sym.SymInt((x.t / mask) % 2)
    return (x // mask) % 2


@harness("C14.flags_mode")
def flags_mode(ctx):
    """mode string implied by the flag word, for every flag word below 2^22"""
    flags = ctx.int("flags", 0, 2**22 - 1)
    k = simk.Kernel(ctx)
    with k.installed():
        try:
            m, exc = _pslinux.file_flags_to_mode(flags), None
        except Exception as e:  # noqa: BLE001
            m, exc = None, e
    acc = flags % 4
    app = _bit(ctx, flags, O_APPEND)
    a = acc.__index__() if ctx.symbolic else acc
    p = app.__index__() if ctx.symbolic else app
    if a == 3:
        ctx.prove(exc is None, "accmode3-no-exception", detail=f"{type(exc).__name__}: {exc}")
    else:
        want = {0: "r", 1: "a" if p else "w", 2: "a+" if p else "r+"}[a]
        ctx.prove(exc is None and m == want, "mode-table", detail=f"got {m!r} / {exc!r}, want {want!r}")


KINDS = ["reg", "deleted", "deleted_stale", "nul_deleted", "relative", "relative_existing", "socket", "pipe", "anon", "chardev", "toolong", "notlink", "closed_at_readlink", "closed_at_readlink_esrch", "closed_at_fdinfo", "closed_at_fdinfo_esrch", "closed_at_fdinfo_read", "closed_at_fdinfo_read_esrch", "directory"]


@harness("C14.open_files", quick=[dict(n=n, acc3=False) for n in (0, 1, 2)] + [dict(n=1, acc3=True)], thorough=[dict(n=n, acc3=False) for n in (0, 1, 2, 3)] + [dict(n=n, acc3=False, nsym=2) for n in (4, 5)] + [dict(n=2, acc3=True)])
def open_files(ctx, n, acc3, nsym=None):
    k = simk.Kernel(ctx)
    simk.system_files(k)
    simk.full_process(k, 77)
    want, fds = [], []
    for name in list(k.links):
        if name.startswith("/proc/77/fd/"):
            del k.links[name]
    for i in range(n):
        # nsym: only the first nsym descriptors have a symbolic kind, the others cycle through fixed kinds (keeps 4-5 descriptors affordable)
        kind = ctx.choice(f"kind{i}", KINDS) if nsym is None or i < nsym else ("reg", "socket", "deleted_stale")[(i - nsym) % 3]
        fd = 3 + 2 * i
        fds.append(str(fd))
        link, info = f"/proc/77/fd/{fd}", f"/proc/77/fdinfo/{fd}"
        pos = ctx.int(f"pos{i}", 0, 2**63)
        flags = ctx.int(f"fl{i}", 0, 2**22 - 1)
        if acc3 and i == 0:
            ctx.assume(ctx.eq(flags % 4, 3))
        else:
            ctx.assume(ctx.neg(ctx.eq(flags % 4, 3)))
        # (a descriptor on which the process holds a flock()/POSIX lock has further `lock:` lines of nine tokens each)
        locked = i == 0 and ctx.flag("fd0_holds_a_lock")
        k.files[info] = b"pos:\t" + k.num(pos) + b"\nflags:\t" + k.num(flags, base=8, lead=b"0") + b"\nmnt_id:\t27\nino:\t5\n" + (b"lock:\t1: FLOCK  ADVISORY  WRITE 77 08:01:5 0 EOF\n" if locked else b"")
        if kind in ("reg", "deleted", "deleted_stale", "closed_at_fdinfo", "closed_at_fdinfo_esrch", "closed_at_fdinfo_read", "closed_at_fdinfo_read_esrch"):
            # 'deleted': a file whose name really ends in ' (deleted)' and exists; 'deleted_stale': the kernel's suffix on an unlinked file
            path = f"/data/file{i}" + (" (deleted)" if kind in ("deleted", "deleted_stale") else "")
            k.links[link] = path
            if kind == "deleted_stale":
                k.stats[path] = simk.oserr(errno.ENOENT, path)
                path = path[:-10]
            k.stats[path] = simk.StatResult()
            if kind.startswith("closed_at_fdinfo_read"):
                # ... or after its fdinfo file was OPENED: the open succeeds and it is the read that fails (fs/proc/fd.c looks the
                # descriptor up again when the file is read)
                k.files[info] = simk.fails_on_read(k, info, errno.ESRCH if kind.endswith("esrch") else errno.ENOENT)
            elif kind.startswith("closed_at_fdinfo"):
                # the descriptor is closed after its link was read: the kernel answers ENOENT, or ESRCH when the task is being torn down
                k.files[info] = simk.oserr(errno.ESRCH if kind.endswith("esrch") else errno.ENOENT, info)
            else:
                want.append((path, fd, pos, flags))
        elif kind == "nul_deleted":
            # the link reads back as the path, a NUL and trailing garbage that happens to look like the kernel's suffix (issue 717)
            path = f"/data/file{i}"
            k.links[link] = path + "\x00 (deleted)"
            k.stats[path] = simk.StatResult()
            want.append((path, fd, pos, flags))
        elif kind == "relative":
            k.links[link] = "relative/path"
        elif kind == "relative_existing":
            # a link target that is not an absolute path but names a regular file relative to the CALLER's directory (a file called
            # "pipe:[777]" or "relative/path" lying there): still not one of the process's regular files by absolute path
            tgt = ("pipe:[777]", "anon_inode:[eventpoll]", "relative/path")[i % 3]
            k.links[link] = tgt
            k.stats[tgt] = simk.StatResult()
        elif kind == "socket":
            k.links[link] = "socket:[12345]"
        elif kind == "pipe":
            k.links[link] = "pipe:[777]"
        elif kind == "anon":
            k.links[link] = "anon_inode:[eventfd]"
        elif kind == "chardev":
            k.links[link] = "/dev/null"
            k.stats["/dev/null"] = simk.StatResult(0o020666)
        elif kind == "directory":
            k.links[link] = "/home/u"
            k.stats["/home/u"] = simk.StatResult(0o040755)
        elif kind == "toolong":
            k.links[link] = simk.oserr(errno.ENAMETOOLONG, link)
        elif kind == "notlink":
            k.links[link] = simk.oserr(errno.EINVAL, link)
        elif kind.startswith("closed_at_readlink"):
            k.links[link] = simk.oserr(errno.ESRCH if kind.endswith("esrch") else errno.ENOENT, link)
    k.dirs["/proc/77/fd"] = fds
    with k.installed():
        p = psutil.Process(77)
        try:
            got, exc = p.open_files(), None
        except Exception as e:  # noqa: BLE001
            got, exc = None, e
        nfds = p.num_fds()
    ctx.observe("open_files", [tuple(g) for g in got] if got is not None else None)
    ctx.prove(exc is None, "no-exception-live-process[acc3]" if acc3 else "no-exception-live-process", detail=f"{type(exc).__name__}: {exc}")
    ctx.prove(nfds == n, "num_fds")
    if exc is None:
        ctx.prove(len(got) == len(want), "exactly-regular-files")
        for g, (path, fd, pos, flags) in zip(got, want):
            app = _bit(ctx, flags, O_APPEND)
            acc = flags % 4
            a = acc.__index__() if ctx.symbolic else acc
            pbit = app.__index__() if ctx.symbolic else app
            wantmode = {0: "r", 1: "a" if pbit else "w", 2: "a+" if pbit else "r+"}.get(a)
            ctx.prove(ctx.all([g.path == path, g.fd == fd, ctx.eq(g.position, pos), ctx.eq(g.flags, flags), a == 3 or g.mode == wantmode]), "entry-fields")


IO_NAMES = ["rchar", "wchar", "syscr", "syscw", "read_bytes", "write_bytes", "cancelled_write_bytes"]
JUNK = ["", "   ", "garbage line without colon", "a: b: c", "future_field: 12"]


@harness("C14.io_counters", quick=[dict(njunk=0), dict(njunk=1)], thorough=[dict(njunk=0), dict(njunk=1), dict(njunk=2)])
def io_counters(ctx, njunk):
    """the six counters under the documented names, tolerating blank / malformed / unknown extra lines at any position"""
    k = simk.Kernel(ctx)
    simk.system_files(k)
    simk.full_process(k, 77)
    v = {n: ctx.int(f"io_{n}", 0, 2**64 - 1) for n in IO_NAMES}
    lines = [f"{n}: {k.num(v[n], True)}" for n in IO_NAMES]
    for j in range(njunk):
        at = ctx.choice(f"junk_at{j}", list(range(len(lines) + 1)))
        what = ctx.choice(f"junk{j}", JUNK)
        lines.insert(at, what)
    k.files["/proc/77/io"] = "\n".join(lines) + "\n"
    with k.installed():
        p = psutil.Process(77)
        try:
            r, exc = p.io_counters(), None
        except Exception as e:  # noqa: BLE001
            r, exc = None, e
    ctx.observe("io_counters", tuple(r) if r is not None else None)
    ctx.prove(exc is None and r._fields == ("read_count", "write_count", "read_bytes", "write_bytes", "read_chars", "write_chars") and
              ctx.all([ctx.eq(r.read_count, v["syscr"]), ctx.eq(r.write_count, v["syscw"]), ctx.eq(r.read_bytes, v["read_bytes"]), ctx.eq(r.write_bytes, v["write_bytes"]),
                       ctx.eq(r.read_chars, v["rchar"]), ctx.eq(r.write_chars, v["wchar"])]), "io-six-fields", detail=f"{exc!r}")


@harness("C14.exits_mid_scan", quick=[dict(n=3)], thorough=[dict(n=3), dict(n=4)])
def exits_mid_scan(ctx, n):
    """the process exits (and is reaped) at a symbolic point of the scan -- possibly after one of its descriptors had been closed
    harmlessly earlier in the same scan: a scan that lost the process raises NoSuchProcess, it does not return a partial list"""
    k = simk.Kernel(ctx)
    simk.system_files(k)
    simk.full_process(k, 77)
    for name in list(k.links):
        if name.startswith("/proc/77/fd/"):
            del k.links[name]
    first = ctx.choice("first_descriptor", ["reg", "closed_at_readlink", "closed_at_fdinfo"])
    fds, want = [], []
    for i in range(n):
        fd = 3 + 2 * i
        fds.append(str(fd))
        link, info, path = f"/proc/77/fd/{fd}", f"/proc/77/fdinfo/{fd}", f"/data/file{i}"
        k.files[info] = "pos:\t5\nflags:\t0100002\nmnt_id:\t27\n"
        k.links[link] = path
        k.stats[path] = simk.StatResult()
        if i == 0 and first == "closed_at_readlink":
            k.links[link] = simk.oserr(errno.ENOENT, link)
        elif i == 0 and first == "closed_at_fdinfo":
            k.files[info] = simk.oserr(errno.ENOENT, info)
        else:
            want.append((path, fd))
    k.dirs["/proc/77/fd"] = fds
    k.fault.pid = 77
    with k.installed():
        p = psutil.Process(77)
        k.fault.prefix = "/proc/77"
        k.naccess = 0
        k.fault.vanish_at = ctx.int("exits_at_access", 0, 60)
        try:
            got, exc = p.open_files(), None
        except (psutil.Error, OSError) as e:
            got, exc = None, e
        fired = list(k.fault.fired)
    if fired:
        ctx.prove(isinstance(exc, psutil.NoSuchProcess) and exc.pid == 77, "exit-mid-scan-NoSuchProcess", detail=f"first descriptor {first}; process gone at {fired[:1]}: open_files() -> {got if exc is None else repr(exc)}")
    else:
        ctx.prove(exc is None and [(g.path, g.fd) for g in got] == want, "exactly-regular-files", detail=f"{exc!r} {got}")


@harness("C14.fresh_in_oneshot", quick=[dict(what=w) for w in ("num_fds", "open_files")])
def fresh_in_oneshot(ctx, what):
    """num_fds() and open_files() reflect the descriptor table at every call, also inside a oneshot() block (the block's cached
    sources are the stat, status and smaps records, not the descriptor directory): a descriptor opened or closed between two calls
    of one block shows in the second"""
    k = simk.Kernel(ctx)
    simk.system_files(k)
    simk.full_process(k, 77)
    change = ctx.choice("change", ["opens-a-file", "closes-a-file", "nothing"])
    with k.installed():
        p = psutil.Process(77)
        with p.oneshot():
            p.name()
            a = p.num_fds() if what == "num_fds" else sorted(f.fd for f in p.open_files())
            if change == "opens-a-file":
                k.dirs["/proc/77/fd"] = k.dirs["/proc/77/fd"] + ["9"]
                k.links["/proc/77/fd/9"] = "/data/new"
                k.stats["/data/new"] = simk.StatResult()
                k.files["/proc/77/fdinfo/9"] = "pos:\t0\nflags:\t0100000\nmnt_id:\t1\n"
            elif change == "closes-a-file":
                k.dirs["/proc/77/fd"] = [x for x in k.dirs["/proc/77/fd"] if x != "3"]
                del k.links["/proc/77/fd/3"]
            b = p.num_fds() if what == "num_fds" else sorted(f.fd for f in p.open_files())
    if what == "num_fds":
        ctx.prove(a == 3 and b == {"opens-a-file": 4, "closes-a-file": 2, "nothing": 3}[change], "num_fds", detail=f"{a} -> {b} after the process {change}")
    else:
        ctx.prove(a == [3] and b == {"opens-a-file": [3, 9], "closes-a-file": [], "nothing": [3]}[change], "exactly-regular-files", detail=f"{a} -> {b} after the process {change}")
