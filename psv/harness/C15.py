"""C15 — wait() and wait_procs(): right exit status, never early, timeouts honoured.

Real code executed: psutil.Process.wait, psutil.wait_procs, _pslinux.Process.wait, _psposix.wait_pid (its bound defaults
_timer/_sleep/_pid_exists re-bound to the virtual clock and the simulated process table), negsig_to_enum, pid_exists, Process.is_running.
"""
import errno
import fractions

from psv import simk
from psv.run import harness
from psv.simk import _common, _psposix, psutil
from psv.sym import BoundExceeded

F = fractions.Fraction
MAXPOLLS = 16
CAP = F(0.04)      # the exact binary value of the float the real code uses

META = dict(
    assumptions=[
        "time.sleep(d) takes exactly d on the virtual clock and nothing else takes time (the harness's clock arithmetic is exact: Fraction(float))",
        "the exit instant, the timeout and the clock are reals; the sleep lengths themselves are the concrete floats the real code computes",
        "os.waitpid contract: (0,0) while alive under WNOHANG; (pid,status) once after exit; ChildProcessError for non-children / unknown PIDs; InterruptedError where the fault plan says so",
        "status word: exit code 0-255 in bits 8-15, or terminating signal 1-64 in bits 0-6 with a symbolic core-dump bit",
    ],
    stubs=["os.waitpid / WIFEXITED / WEXITSTATUS / WIFSIGNALED / WTERMSIG over a symbolic status word", "wait_pid's _timer/_sleep/_pid_exists defaults re-bound to the virtual clock", "os.kill (pid_exists) against the simulated table"],
    bounds=dict(quick=dict(polls=f"<= {MAXPOLLS} (the ramp 0.1 ms -> 40 ms takes 10); exit instant and timeout within 0.2 s of the start so that no path is truncated", wait_procs="1 process (timeout <= 0.15 s), 2 processes (timeout <= 1 ms, exit instants <= 2 ms)"),
                long_wait="exit instant and timeout any real in [0, 10^6] s; up to 2.5*10^7 steady-state polls replaced by one symbolic clock jump; <= 24 polls executed for real around it",
                thorough=dict(polls=f"<= {MAXPOLLS}; exit instant / timeout within 0.2 s", wait_procs="1 process (timeout <= 0.15 s), 2 processes (<= 20 ms), 3 processes (<= 0.5 ms)")),
    outside=["C15.wait / wait_procs: waits longer than 0.2 s of virtual time (paths beyond the poll bound are counted as truncated); C15.long_wait covers Process.wait() up to 10^6 s by accelerating the steady state, under the run-time check that the loop's frame state is identical at two consecutive capped polls",
             "EINTR more than once per wait", "stopped/continued children", "wait_procs with waits beyond the stated timeouts"],
    labels=["returns-exit-status", "never-early", "cached-second-call", "sleep-lengths", "timeout-only-if-alive-at-last-poll", "timeout-at-most-one-poll-late", "timeout-fields",
            "timeout0-never-sleeps", "negative-timeout-ValueError", "non-child-returns-None", "wait_procs-partition", "wait_procs-deadline", "returns-within-one-poll-of-the-exit"],
)


class World:
    """a simulated process table entry whose exit instant is symbolic"""

    def __init__(self, ctx, k, pid, tag, role, exits, eintr_at=None, allsig=False, emax=F(2, 10), stolen=False):
        self.ctx, self.k, self.pid, self.role = ctx, k, pid, role
        self.E = ctx.real(f"exit_at{tag}", 0, emax) if exits else None
        # stolen: somebody else (a SIGCHLD handler, subprocess.Popen.poll() in another thread) reaps the child `steal_after` seconds
        # after it exited; from then on waitpid() answers ECHILD and the PID is gone
        self.R = (self.E + ctx.real(f"steal_after{tag}", 0, emax)) if (stolen and exits) else None
        self.how = ctx.choice(f"how{tag}", ["code", "signal"]) if role == "child" else None
        self.code = ctx.int(f"code{tag}", 0, 255)
        # every signal 1..64 only where asked (the enum lookup concretises the number: x64 paths); two boundary signals elsewhere
        self.sig = ctx.int(f"sig{tag}", 1, 64) if allsig else ctx.choice(f"sig{tag}", [9, 64])
        self.core = ctx.int(f"core{tag}", 0, 1)
        self.reaped = False
        self.polls = []
        self.eintr_at = eintr_at
        self.t0 = k.now
        self.started = False      # the exit clock starts when the harness starts waiting

    def alive(self):
        return not self.started or self.E is None or bool(self.k.now - self.t0 < self.E)

    def status(self):
        return self.code * 256 if self.how == "code" else self.sig + 128 * self.core

    def expected(self):
        if self.role != "child":
            return None
        return self.code if self.how == "code" else -self.sig


def install_world(k, worlds):
    table = {w.pid: w for w in worlds}
    npolls = [0]

    def waitpid(pid, flags):
        npolls[0] += 1
        if npolls[0] > MAXPOLLS * len(worlds):
            raise BoundExceeded()
        w = table.get(pid)
        if w is not None and w.R is not None and w.started and bool(k.now - w.t0 >= w.R):
            w.reaped = True
        if w is None or w.role != "child" or w.reaped:
            raise ChildProcessError(errno.ECHILD, "No child processes")
        if w.eintr_at is not None and len(w.polls) == w.eintr_at:
            w.polls.append((k.now, "eintr"))
            raise InterruptedError(errno.EINTR, "Interrupted system call")
        alive = w.alive()
        w.polls.append((k.now, alive))
        if alive:
            if flags & 1:      # WNOHANG
                return (0, 0)
            if w.E is None:
                raise BoundExceeded()        # blocking forever
            hook = getattr(k, "on_block", None)
            if hook is not None:
                hook()                      # (two-thread harness: the other thread runs while this one is blocked in waitpid)
            k.now = w.t0 + w.E              # blocks until the exit instant
        w.reaped = True
        return (pid, w.status())

    def pid_exists(pid):
        npolls[0] += 1
        if npolls[0] > MAXPOLLS * len(worlds):
            raise BoundExceeded()
        w = table.get(pid)
        if w is None or w.role == "never":
            return False
        if w.R is not None and w.started and bool(k.now - w.t0 >= w.R):
            w.reaped = True
        alive = w.alive() or (w.role == "child" and not w.reaped)
        w.polls.append((k.now, alive))
        return alive

    k.waitpid_fn = waitpid
    d = _psposix.wait_pid.__defaults__
    assert len(d) == 7, d
    return [(_psposix.wait_pid, "__defaults__", (d[0], d[1], waitpid, k.timer, d[4], k.sleep, pid_exists))], pid_exists


class Accelerator:
    """Steady-state acceleration of the polling loop (covers waits of any length).

    Once the back-off has reached its cap the loop's only state is the clock: every further iteration sleeps CAP and polls again.
    That is *checked*, not assumed: at two consecutive CAP-long sleeps the locals of the running wait_pid() frame (and the cells
    of its sleep() closure) must be identical; only then does the stub replace "n more identical iterations" by one clock jump of
    n*CAP with n a symbolic integer >= 0, under the conditions that made those n iterations no-ops: the process was still alive
    at the last skipped poll and the deadline had not passed at the last skipped deadline test.  What follows the jump is executed
    by the real code again.  In concrete replays with n <= REAL_MAX nothing is skipped: the real loop runs all n iterations."""

    REAL_MAX = 3000

    def __init__(self, ctx, k, world, stop_at_fn, nmax):
        self.ctx, self.k, self.w, self.stop_at_fn = ctx, k, world, stop_at_fn
        self.n = ctx.int("skipped_polls", 0, nmax)
        self.prev_locals, self.done, self.jumped = None, False, 0
        self.real = (not ctx.symbolic) and self.n <= self.REAL_MAX

    def _frame_state(self):
        import sys

        f = sys._getframe(2)
        while f is not None and f.f_code.co_name != "wait_pid":
            f = f.f_back
        if f is None:
            from psv.sym import HarnessError
            raise HarnessError("acceleration: wait_pid frame not found")
        return {k_: v for k_, v in f.f_locals.items() if k_ not in ("retpid", "status") and not callable(v)}

    def sleep(self, d):
        k = self.k
        k.sleep(d)
        if self.done or self.real or F(d) != CAP:
            return
        cur = self._frame_state()
        if self.prev_locals is None:
            self.prev_locals = cur
            return
        if cur != self.prev_locals:
            from psv.sym import HarnessError
            raise HarnessError(f"acceleration unjustified: loop state differs between two steady polls: {self.prev_locals} vs {cur}")
        self.done = True
        n, w = self.n, self.w
        # the n skipped iterations: poll at now + i*CAP (i = 0..n-1) finds the process alive, the deadline test that follows
        # passes, the loop sleeps CAP
        last = k.now + (n - 1) * CAP
        stop_at = self.stop_at_fn()
        conds = [self.ctx.implies(n >= 1, (last - w.t0 < w.E) if w.E is not None else True)]
        if stop_at is not None:
            conds.append(self.ctx.implies(n >= 1, last < stop_at))
        # n is maximal: the first poll that is executed for real again finds the process gone, or the deadline test after it fails
        # (every execution has such a maximal run of no-op iterations, so nothing is lost and no path is cut by the poll bound)
        nxt = k.now + n * CAP
        settle = [(nxt - w.t0 >= w.E)] if w.E is not None else []
        if stop_at is not None:
            settle.append(nxt >= stop_at)
        conds.append(self.ctx.any(settle))
        self.ctx.assume(self.ctx.all(conds))
        k.now = k.now + n * CAP
        self.jumped = n


def _fr(d):
    return F(d) if isinstance(d, float) else d          # the real code's sleep lengths are floats; a changed one may pass a symbolic term


def sleeps_ok(sl, ctx=None):
    conds = [F(0.0001) <= _fr(d) for d in sl] + [_fr(d) <= CAP for d in sl] + [_fr(b) <= 2 * _fr(a) for a, b in zip(sl, sl[1:])] + ([_fr(sl[0]) == F(0.0001)] if sl else [])
    if ctx is not None and any(not isinstance(c, bool) for c in conds):
        return ctx.all(conds)
    return all(bool(c) for c in conds)


@harness("C15.wait", quick=[dict(role=r, tmo=t, exits=e, eintr=None) for r in ("child", "nonchild") for t in ("sym", "none") for e in (True, False) if not (t == "none" and not e)]
         + [dict(role="never", tmo="sym", exits=False, eintr=None), dict(role="child", tmo="sym", exits=True, eintr=0), dict(role="child", tmo="sym", exits=True, eintr=2), dict(role="child", tmo="zero", exits=True, eintr=None),
            dict(role="child", tmo="neg", exits=True, eintr=None), dict(role="child", tmo="sym", exits=True, eintr=None, stolen=True), dict(role="child", tmo="sym", exits=True, eintr=None, popen=True)],
         thorough=[dict(role=r, tmo=t, exits=e, eintr=i) for r in ("child", "nonchild") for t in ("sym", "none", "zero") for e in (True, False) for i in (None, 0, 1, 3) if not (t == "none" and not e) and not (i is not None and r != "child")]
         + [dict(role="never", tmo=t, exits=False, eintr=None) for t in ("sym", "none", "zero")] + [dict(role=r, tmo="neg", exits=True, eintr=None) for r in ("child", "nonchild", "never")] + [dict(role="child", tmo=t, exits=True, eintr=i, stolen=True) for t in ("sym", "none") for i in (None, 1)],
         cap=80)
def wait(ctx, role, tmo, exits, eintr, stolen=False, popen=False):
    """popen: the object is a psutil.Popen (over a subprocess.Popen stand-in): same contract, and the exit status is also stored on
    the wrapped object"""
    k = simk.Kernel(ctx)
    simk.system_files(k)
    simk.full_process(k, 77)
    w = World(ctx, k, 77, "", role, exits, eintr, allsig=(tmo == "none" and role == "child" and not stolen), stolen=stolen)
    timeout = {"sym": lambda: ctx.real("timeout", 0, F(2, 10)), "none": lambda: None, "zero": lambda: 0, "neg": lambda: ctx.real("timeout", -5, 5)}[tmo]()
    if tmo == "neg":
        ctx.assume(timeout < 0)
    patches, _ = install_world(k, [w])
    class _Sub:
        pid, returncode, stdin, stdout, stderr = 77, None, None, None, None

        def __init__(self, *a, **kw):
            pass

    class _Subprocess:
        Popen = _Sub

    with k.installed(extra=patches + ([(psutil, "subprocess", _Subprocess)] if popen else [])):
        p = psutil.Popen(["child"]) if popen else psutil.Process(77)
        n0 = k.naccess_total
        start = k.now
        w.t0, w.started = start, True
        if popen and ctx.flag("status_collected_through_subprocess_first"):
            # the child has exited and subprocess.Popen's own poll()/communicate() reaped it and stored the status (any status, 0
            # included) before psutil's wait() is called: wait() answers with that status, at once, and keeps it
            want_rc = w.expected()
            p._Popen__subproc.returncode = want_rc
            w.reaped = True
            r = ctx.guard("popen-returncode-stored", p.wait, timeout)
            ctx.prove(ctx.eq(r, want_rc) and ctx.eq(p.returncode, want_rc) and not k.sleeps, "popen-returncode-stored", detail=f"status collected by subprocess: {want_rc}; wait() -> {r!r}, returncode now {p.returncode!r}")
            r2 = p.wait(timeout)
            ctx.prove(ctx.eq(r2, want_rc), "cached-second-call", detail=f"second wait() -> {r2!r}")
            return
        try:
            r, exc = p.wait(timeout), None
        except (_common.TimeoutExpired, ValueError) as e:
            r, exc = None, e
        end = k.now
        sl = list(k.sleeps)
        npolls = len(w.polls)
        if tmo == "neg":
            ctx.prove(isinstance(exc, ValueError) and npolls == 0 and not sl and k.naccess_total == n0, "negative-timeout-ValueError")
            return
        ctx.prove(not isinstance(exc, ValueError), "no-ValueError-for-valid-timeout")
        ctx.prove(sleeps_ok(sl, ctx), "sleep-lengths", detail=f"{sl}")
        if exc is None:
            gone_at = w.E if w.E is not None else None
            if role == "never":
                ctx.prove(r is None and not sl, "never-existed-returns-None-at-once")
            else:
                ctx.prove(gone_at is not None, "never-early")
                if gone_at is not None:
                    ctx.prove(end - start >= gone_at, "never-early")
                    if role == "child" and stolen:
                        # the status may have been collected by this call (before the thief) or be lost for good: None
                        ctx.prove(r is None or ctx.eq(r, w.expected()), "returns-exit-status", detail=f"reaped elsewhere: how={w.how} got {r!r}")
                    elif role == "child":
                        ctx.prove(ctx.eq(r, w.expected()), "returns-exit-status", detail=f"how={w.how} got {r!r}")
                    else:
                        ctx.prove(r is None, "non-child-returns-None")
            # the same cached value on every later call, without touching the OS
            npolls2, nsl = len(w.polls), len(k.sleeps)
            r2 = p.wait(timeout)
            ctx.prove((r2 is r or ctx.eq(r2, r)) and len(w.polls) == npolls2 and len(k.sleeps) == nsl, "cached-second-call")
            if popen:
                # psutil.Popen.wait() answers from the wrapped object's returncode first, like subprocess.Popen.wait() does, whatever
                # the timeout: the statement's "negative timeout" clause is about Process.wait() and is not held against Popen
                ctx.prove(ctx.eq(p.returncode, r) if r is not None else p.returncode is None, "popen-returncode-stored")
                return
            # ... and a negative timeout is still refused once a result is cached
            neg = ctx.real("later_negative_timeout", -5, 0)
            ctx.assume(neg < 0)
            try:
                p.wait(neg)
                e3 = None
            except ValueError as e:
                e3 = e
            ctx.prove(e3 is not None and len(w.polls) == npolls2, "negative-timeout-ValueError", detail="after a completed wait()")
        else:
            ctx.prove(timeout is not None, "timeout-only-with-a-timeout")
            if timeout is not None:
                last = [a for _, a in w.polls if a != "eintr"]
                ctx.prove(bool(last) and last[-1] is True or (not last and eintr is not None), "timeout-only-if-alive-at-last-poll")
                ctx.prove(ctx.all([end - start >= timeout, end - start <= timeout + CAP]), "timeout-at-most-one-poll-late")
                ctx.prove((exc.seconds is timeout or ctx.eq(exc.seconds, timeout)) and exc.pid == 77, "timeout-fields")
        if tmo == "zero":
            ctx.prove(not sl, "timeout0-never-sleeps")
        if tmo == "sym":
            ctx.prove(ctx.implies(ctx.eq(timeout, 0), len(sl) == 0), "timeout0-never-sleeps")


@harness("C15.two_waiters", quick=[dict(b="sym"), dict(b="zero")], timeout_ms=5000)
def two_waiters(ctx, b):
    """two threads on ONE Process object: A blocks in wait() (no timeout); while it is blocked, B calls wait(timeout) with a deadline
    that passes while the child is still running.  B gets TimeoutExpired within one poll of its deadline (timeout=0: without
    sleeping) -- it does not wait for A -- and A gets the exit status."""
    from psv import sched

    k = simk.Kernel(ctx)
    simk.system_files(k)
    simk.full_process(k, 77)
    w = World(ctx, k, 77, "", "child", True, None)
    tb = 0 if b == "zero" else ctx.real("timeout_b", 0, F(1, 10))
    ctx.assume(tb + CAP < w.E)            # the child outlives B's deadline by more than one poll
    patches, _ = install_world(k, [w])
    S = sched.Scheduler(ctx, budget=0)
    mark = {}

    def on_block():
        if S.current == 0 and 1 not in S.done:
            S.switch_to(1, reason="A is blocked in waitpid()")

    k.on_block = on_block

    def body_b():
        mark["start"], mark["nsleeps"] = k.now, len(k.sleeps)
        try:
            return ("returned", p.wait(tb if b == "zero" else tb))
        except _common.TimeoutExpired as e:
            return ("timeout", e)
        finally:
            mark["end"], mark["slept"] = k.now, len(k.sleeps) - mark["nsleeps"]

    with k.installed(extra=patches + [(psutil, "threading", sched.ThreadingProxy(S))]):
        p = psutil.Process(77)
        w.t0, w.started = k.now, True
        res = S.run([lambda: p.wait(), body_b])
    ctx.prove(res[0][0] == "ok" and ctx.eq(res[0][1], w.expected()), "returns-exit-status", detail=f"thread A (blocking wait()): {res[0]!r}")
    ctx.prove(res[1][0] == "ok" and res[1][1][0] == "timeout", "timeout-only-if-alive-at-last-poll", detail=f"thread B wait({tb}) while the child runs and A is blocked in wait(): {res[1]!r}")
    if "end" in mark:
        ctx.prove(mark["end"] - mark["start"] <= tb + CAP, "timeout-at-most-one-poll-late", detail="thread B")
        if b == "zero":
            ctx.prove(mark["slept"] == 0, "timeout0-never-sleeps", detail="thread B")


@harness("C15.wait_procs", quick=[dict(n=2, tmo="zero", tmax="0", shape="iterator"), dict(n=2, tmo="zero", tmax="0", shape="duplicate"), dict(n=1, tmo="sym", tmax="15/100"), dict(n=2, tmo="sym", tmax="1/1000"), dict(n=2, tmo="zero", tmax="0"), dict(n=2, tmo="sym", tmax="1/10", never_exit=True),
                                   dict(n=3, tmo="sym", tmax="1/10", never_exit=True)],
         thorough=[dict(n=1, tmo="sym", tmax="15/100"), dict(n=2, tmo="sym", tmax="2/100"), dict(n=3, tmo="sym", tmax="1/2000"), dict(n=2, tmo="zero", tmax="0"), dict(n=3, tmo="zero", tmax="0"),
                   dict(n=2, tmo="none", tmax="1/100"), dict(n=2, tmo="sym", tmax="1/1000", shape="iterator"), dict(n=2, tmo="sym", tmax="1/1000", shape="duplicate")], cap=80)
def wait_procs(ctx, n, tmo, tmax, never_exit=False, shape="list"):
    """never_exit: all processes outlive the call (the scenario in which the deadline matters most), which keeps the number of
    paths small enough for timeouts of 0.1 s with 2-3 processes"""
    tmax = F(tmax)
    k = simk.Kernel(ctx)
    simk.system_files(k)
    worlds = []
    for i in range(n):
        pid = 70 + i
        simk.full_process(k, pid)
        role = ctx.choice(f"role{i}", ["child", "nonchild"])
        exits = False if never_exit else (True if tmo == "none" else ctx.flag(f"exits{i}"))
        worlds.append(World(ctx, k, pid, str(i), role, exits, emax=2 * tmax if tmax else F(2, 10)))
    timeout = {"sym": lambda: ctx.real("timeout", 0, tmax), "zero": lambda: 0, "none": lambda: None}[tmo]()
    patches, pid_exists = install_world(k, worlds)
    table = {w.pid: w for w in worlds}

    def listed(pid):            # /proc/<pid> entry exists while the process is alive or an unreaped zombie
        w = table[pid]
        return w.alive() or (w.role == "child" and not w.reaped)

    for w in worlds:
        orig = k.files[f"/proc/{w.pid}/stat"]
        k.files[f"/proc/{w.pid}/stat"] = (lambda w=w, orig=orig: orig if listed(w.pid) else simk.oserr(errno.ENOENT))
    called = []
    with k.installed(extra=patches):
        procs = [psutil.Process(w.pid) for w in worlds]
        extra = [psutil.Process(worlds[0].pid)] if shape == "duplicate" else []
        start = k.now
        for w in worlds:
            w.t0, w.started = start, True
        # shape of the input: a list, a one-shot iterator, or a list holding a second, equal object for the first process
        arg = iter(procs) if shape == "iterator" else procs + extra
        gone, alive = psutil.wait_procs(arg, timeout=timeout, callback=lambda p: called.append(p))
        end = k.now
    # equal objects (same process) count as one input; every input is in exactly one of the two lists, once
    ctx.prove(len(gone) + len(alive) == n and not (set(gone) & set(alive)) and set(gone) | set(alive) == set(procs) and len(set(gone)) == len(gone) and len(set(alive)) == len(alive), "wait_procs-partition",
              detail=f"shape={shape}: gone={[p.pid for p in gone]} alive={[p.pid for p in alive]}")
    ctx.prove(sorted(id(p) for p in called) == sorted(id(p) for p in gone), "wait_procs-callback-once-per-gone")
    for p in gone:
        w = table[p.pid]
        ctx.prove(hasattr(p, "returncode") and w.E is not None, "wait_procs-gone-really-ended")
        if w.E is not None:
            ctx.prove(end - start >= w.E, "wait_procs-gone-really-ended")
            ctx.prove(ctx.eq(p.returncode, w.expected()) if w.role == "child" else p.returncode is None, "wait_procs-returncode")
    for p in alive:
        ctx.prove(not hasattr(p, "returncode"), "wait_procs-alive-has-no-returncode")
    if timeout is not None:
        ctx.prove(end - start <= timeout + CAP, "wait_procs-deadline")
    ctx.prove(sleeps_ok([d for d in k.sleeps][:1]), "sleep-lengths")


@harness("C15.long_wait", quick=[dict(role="child", tmo="sym"), dict(role="nonchild", tmo="sym"), dict(role="child", tmo="none")],
         thorough=[dict(role=r, tmo=t) for r in ("child", "nonchild") for t in ("sym", "none")] + [dict(role="child", tmo="sym", exits=False)], cap=80)
def long_wait(ctx, role, tmo, exits=True):
    """waits of any length: exit instant and timeout up to 10^6 s, the steady-state polls in between replaced by one symbolic
    clock jump (see Accelerator); same obligations as C15.wait"""
    import psv.harness.C15 as me

    BIG = 10**6
    k = simk.Kernel(ctx)
    simk.system_files(k)
    simk.full_process(k, 77)
    w = World(ctx, k, 77, "", role, exits, None, emax=BIG)
    timeout = ctx.real("timeout", 0, BIG) if tmo == "sym" else None
    start_box = []
    acc = Accelerator(ctx, k, w, lambda: (start_box[0] + timeout) if timeout is not None else None, nmax=BIG * 25)
    old_max = me.MAXPOLLS
    me.MAXPOLLS = 24 + (acc.n if acc.real else 0)
    try:
        patches, _ = install_world(k, [w])
        d = patches[0][2]
        patches = [(_psposix.wait_pid, "__defaults__", d[:5] + (acc.sleep,) + d[6:])]
        with k.installed(extra=patches):
            p = psutil.Process(77)
            start = k.now
            start_box.append(start)
            w.t0, w.started = start, True
            try:
                r, exc = p.wait(timeout), None
            except _common.TimeoutExpired as e:
                r, exc = None, e
            end = k.now
    finally:
        me.MAXPOLLS = old_max
    sl = list(k.sleeps)
    ctx.prove(sleeps_ok(sl, ctx), "sleep-lengths", detail=f"{sl}")
    ctx.observe("skipped", acc.jumped if not acc.real else 0)
    if exc is None:
        ctx.prove(w.E is not None, "never-early")
        if w.E is not None:
            ctx.prove(end - start >= w.E, "never-early", detail=f"returned after {end - start}, exit at {w.E}")
            if timeout is None:
                ctx.prove(end - start <= w.E + CAP if role != "child" else ctx.eq(end - start, w.E), "returns-within-one-poll-of-the-exit")
            ctx.prove(ctx.eq(r, w.expected()) if role == "child" else r is None, "returns-exit-status", detail=f"got {r!r}")
    else:
        ctx.prove(timeout is not None, "timeout-only-with-a-timeout")
        if timeout is not None:
            last = [a for _, a in w.polls if a != "eintr"]
            ctx.prove(bool(last) and last[-1] is True, "timeout-only-if-alive-at-last-poll")
            ctx.prove(ctx.all([end - start >= timeout, end - start <= timeout + CAP]), "timeout-at-most-one-poll-late", detail=f"raised after {end - start}, timeout {timeout}")
            ctx.prove((exc.seconds is timeout or ctx.eq(exc.seconds, timeout)) and exc.pid == 77, "timeout-fields")
