"""C08 — virtual_memory() and swap_memory() follow the documented formulas.

Real code executed: _pslinux.virtual_memory/calculate_avail_vmem/swap_memory, _common.usage_percent, psutil.virtual_memory/swap_memory.
"""
import warnings

from psv import simk, sym
from psv.run import harness
from psv.simk import psutil

OPT = ["Buffers", "Cached", "SReclaimable", "Shmem", "MemShared", "Active", "Inactive", "Inact_dirty", "Inact_clean", "Inact_laundry",
       "Slab", "MemAvailable", "Active(file)", "Inactive(file)"]
G3 = [["Buffers", "Cached", "Shmem", "MemShared", "Active", "Inactive", "Inact_dirty", "Inact_clean", "Inact_laundry", "Slab"],
      ["SReclaimable", "Active(file)", "Inactive(file)"], ["MemAvailable"]]
G6 = [["Buffers", "Slab"], ["Cached"], ["Shmem", "Active", "Inactive"], ["MemShared", "Inact_dirty", "Inact_clean", "Inact_laundry"],
      ["SReclaimable", "Active(file)", "Inactive(file)"], ["MemAvailable"]]
G9 = [["Buffers"], ["Slab"], ["Cached"], ["Shmem"], ["Active"], ["Inactive"], ["MemShared", "Inact_dirty", "Inact_clean", "Inact_laundry"],
      ["SReclaimable", "Active(file)", "Inactive(file)"], ["MemAvailable"]]
G_OLD = [["Inact_dirty"], ["Inact_clean"], ["Inact_laundry"], ["MemShared"], ["Active(file)"], ["Inactive(file)"], ["SReclaimable"], ["Cached"]]

META = dict(
    assumptions=[
        "every /proc/meminfo line is `Name: <number> kB` (lines without a number / other units are outside the claim)",
        "floats are exact reals; round(x,1) = k/10 with |10x-k| <= 1/2; int(x) truncates toward zero",
        "text->number boundary: digit placeholders, int/float shadowed in the psutil modules' globals",
        "MemTotal and MemFree are always present (psutil's own documented assumption: they are also returned by sysinfo(2))",
    ],
    stubs=["open() of /proc/meminfo, /proc/zoneinfo, /proc/vmstat", "cext.linux_sysinfo() returns arbitrary non-negative ints"],
    bounds=dict(
        quick=dict(kB_values="each in [0, 2^40] (1 PiB; above 2^53 bytes the real code's float halves are inexact)", optional_fields="14 optional fields decided by 3 / 6 symbolic group flags, plus the old-kernel names individually", zoneinfo="absent or present with 0..2 'low' watermarks", total="symbolic, or pinned to 0"),
        thorough=dict(kB_values="each in [0, 2^40] (1 PiB; above 2^53 bytes the real code's float halves are inexact)", optional_fields="9 independent symbolic group flags + old-kernel names individually", zoneinfo="absent or present with 0..3 'low' watermarks", total="symbolic, or pinned to 0 / 1000 kB"),
    ),
    outside=["meminfo lines without a number", "non-kB units", "values above 2^40 kB (float inexactness above 2^53 bytes)", "IEEE rounding of percent"],
    labels=["plain-fields", "available-kernel-estimate", "available-fallback", "avail-in-range", "percent-formula", "percent-in-range", "warning-names-missing-fields",
            "swap-fields", "swap-percent", "swap-sin-sout"],
)


@harness("C08.vmem",
         quick=[dict(groups=G3, maxlow=2, pin=None), dict(groups=G6, maxlow=1, pin=None), dict(groups=G_OLD, maxlow=1, pin=None), dict(groups=G3, maxlow=1, pin=0)],
         thorough=[dict(groups=G9, maxlow=3, pin=None), dict(groups=G_OLD, maxlow=2, pin=None), dict(groups=G6, maxlow=2, pin=0), dict(groups=G6, maxlow=2, pin=1000)],
         timeout_ms=20000)
def vmem(ctx, groups, maxlow, pin):
    k = simk.Kernel(ctx)
    v, lines = {}, []
    present = {"MemTotal": True, "MemFree": True}
    for gi, g in enumerate(groups):
        f = ctx.flag(f"has_g{gi}")
        for name in g:
            present[name] = f
    for name in OPT:
        present.setdefault(name, False)
    for name in ["MemTotal", "MemFree"] + OPT:
        if not present[name]:
            continue
        v[name] = ctx.int("kb_" + name.replace("(", "_").replace(")", ""), 0, 2**40)
        lines.append(f"{name}:   {k.num(v[name], True)} kB\n")
    if pin is not None:
        ctx.assume(ctx.eq(v["MemTotal"], pin))
    k.files["/proc/meminfo"] = "".join(lines)
    zone = ctx.flag("has_zoneinfo")
    lows = []
    if zone:
        nlow = ctx.choice("nlow", list(range(maxlow + 1)))
        lows = [ctx.int(f"low{i}", 0, 2**40) for i in range(nlow)]
        k.files["/proc/zoneinfo"] = "".join(
            f"Node 0, zone   Z{i}\n  pages free     1\n        min      1\n        low      {k.num(l, True)}\n        high     3\n        spanned  9\n" for i, l in enumerate(lows))
    with k.installed():
        with warnings.catch_warnings(record=True) as w:
            warnings.simplefilter("always")
            r = psutil.virtual_memory()
    ctx.observe("virtual_memory", tuple(r))
    KB = 1024
    g = lambda n: v[n] * KB if n in v else 0   # noqa: E731
    total, free = g("MemTotal"), g("MemFree")
    buffers = g("Buffers")
    cached = (g("Cached") + g("SReclaimable")) if present["Cached"] else 0
    shared = g("Shmem") if present["Shmem"] else g("MemShared")
    active = g("Active")
    old3 = all(present[x] for x in ("Inact_dirty", "Inact_clean", "Inact_laundry"))
    inactive = g("Inactive") if present["Inactive"] else (g("Inact_dirty") + g("Inact_clean") + g("Inact_laundry") if old3 else 0)
    used0 = total - free - cached - buffers
    used = ctx.ite(used0 < 0, total - free, used0)
    ctx.prove(ctx.all([ctx.eq(r.total, total), ctx.eq(r.free, free), ctx.eq(r.buffers, buffers), ctx.eq(r.cached, cached), ctx.eq(r.shared, shared),
                       ctx.eq(r.active, active), ctx.eq(r.inactive, inactive), ctx.eq(r.slab, g("Slab")), ctx.eq(r.used, used)]), "plain-fields")

    def estimate():
        fallback = free + g("Cached")
        if not (present["Active(file)"] and present["Inactive(file)"] and present["SReclaimable"]) or not zone:
            return fallback
        wm = ctx.sum(lows) * 4096
        pagecache = g("Active(file)") + g("Inactive(file)")
        return free - wm + pagecache - ctx.min(ctx.div(pagecache, 2), wm) + g("SReclaimable") - ctx.min(ctx.div(g("SReclaimable"), 2), wm)

    def clamp(x):
        return ctx.ite(x < 0, 0, ctx.ite(x > total, free, x))

    est_i = ctx.trunc(estimate())
    if present["MemAvailable"]:
        ma = g("MemAvailable")
        ctx.prove(ctx.implies(ctx.neg(ctx.eq(ma, 0)), ctx.eq(r.available, clamp(ma))), "available-kernel-estimate")
        ctx.prove(ctx.implies(ctx.eq(ma, 0), ctx.eq(r.available, clamp(est_i))), "available-fallback")
    else:
        ctx.prove(ctx.eq(r.available, clamp(est_i)), "available-fallback")
    ctx.prove(ctx.implies(free <= total, ctx.all([r.available >= 0, r.available <= total])), "avail-in-range")
    if ctx.symbolic:
        src = getattr(r.percent, "round_src", None)
        if src is not None:
            x, nd = src
            ctx.prove(nd == 1, "percent-rounded-to-1-decimal")
            ctx.prove(ctx.all([total > 0, ctx.is_ratio(x, 100 * (total - r.available), total)]), "percent-formula")
            ctx.prove(ctx.implies(free <= total, ctx.all([x >= 0, x <= 100])), "percent-in-range")
        else:
            ctx.prove(ctx.all([ctx.eq(total, 0), ctx.eq(r.percent, 0)]), "percent-zero-total")
    else:
        want = round((float(total - r.available) / total) * 100, 1) if total else 0.0
        ctx.prove(r.percent == want, "percent-formula" if total else "percent-zero-total")
        ctx.prove((not free <= total) or 0 <= r.percent <= 100, "percent-in-range")
    # warnings
    msgs = [str(x.message) for x in w if issubclass(x.category, RuntimeWarning)]
    text = " ".join(msgs)
    exp_missing = []
    if not present["Buffers"]:
        exp_missing.append("buffers")
    if not present["Cached"]:
        exp_missing.append("cached")
    if not present["Shmem"] and not present["MemShared"]:
        exp_missing.append("shared")
    if not present["Active"]:
        exp_missing.append("active")
    if not present["Inactive"] and not old3:
        exp_missing.append("inactive")
    names = [n for m in msgs for n in m.split(" memory stats")[0].split(", ")]
    ctx.prove(sorted(n for n in names if n != "available") == sorted(exp_missing) and len(msgs) <= 1, "warning-names-missing-fields")
    ctx.prove("slab" not in text, "no-warning-for-slab")


@harness("C08.vmem_twice", quick=[dict(second=s_) for s_ in ("other_watermark", "zoneinfo_unreadable")], timeout_ms=20000)
def vmem_twice(ctx, second):
    """two calls in one process with the fallback estimate in use (no MemAvailable line): each call's `available` follows the
    /proc/zoneinfo and /proc/meminfo of THAT moment (the low watermarks change with vm.min_free_kbytes; the file may become
    unreadable), never what an earlier call saw"""
    k = simk.Kernel(ctx)
    names = ["MemTotal", "MemFree", "Cached", "Active(file)", "Inactive(file)", "SReclaimable", "Buffers", "Shmem", "Active", "Inactive", "Slab"]
    v = {n: ctx.int("kb_" + n.replace("(", "_").replace(")", ""), 0, 2**40) for n in names}
    k.files["/proc/meminfo"] = "".join(f"{n}:   {k.num(v[n], True)} kB\n" for n in names)
    low = [ctx.int("low_first_call", 0, 2**40), ctx.int("low_second_call", 0, 2**40)]

    def zoneinfo(l):
        return f"Node 0, zone   Z0\n  pages free     1\n        min      1\n        low      {k.num(l, True)}\n        high     3\n"

    k.files["/proc/zoneinfo"] = zoneinfo(low[0])
    with k.installed():
        with warnings.catch_warnings(record=True):
            warnings.simplefilter("always")
            r1 = psutil.virtual_memory()
            if second == "other_watermark":
                k.files["/proc/zoneinfo"] = zoneinfo(low[1])
            else:
                k.files["/proc/zoneinfo"] = simk.oserr(13, "/proc/zoneinfo")
            r2 = psutil.virtual_memory()
    KB = 1024
    g = lambda n: v[n] * KB   # noqa: E731
    total, free = g("MemTotal"), g("MemFree")

    def estimate(l):
        if l is None:
            return free + g("Cached")
        wm = l * 4096
        pagecache = g("Active(file)") + g("Inactive(file)")
        return free - wm + pagecache - ctx.min(ctx.div(pagecache, 2), wm) + g("SReclaimable") - ctx.min(ctx.div(g("SReclaimable"), 2), wm)

    def clamp(x):
        return ctx.ite(x < 0, 0, ctx.ite(x > total, free, x))

    ctx.prove(ctx.eq(r1.available, clamp(ctx.trunc(estimate(low[0])))), "available-fallback", detail="first call")
    ctx.prove(ctx.eq(r2.available, clamp(ctx.trunc(estimate(low[1] if second == "other_watermark" else None)))), "available-fallback", detail=f"second call ({second})")


@harness("C08.swap", quick=[dict(pin=None), dict(pin=0)], thorough=[dict(pin=None), dict(pin=0), dict(pin=4096)])
def swap(ctx, pin):
    k = simk.Kernel(ctx)
    which = ctx.choice("swap_fields", ["both", "neither", "total-only", "free-only"])     # whichever is missing: the call still succeeds (sysinfo() is the source)
    has_swap = which == "both"
    tot = ctx.int("kb_SwapTotal", 0, 2**40)
    fre = ctx.int("kb_SwapFree", 0, 2**40)
    if pin is not None:
        ctx.assume(ctx.eq(tot, pin))
    lines = "MemTotal: 8000 kB\nMemFree: 10 kB\n"
    if which in ("both", "total-only"):
        lines += f"SwapCached: 0 kB\nSwapTotal: {k.num(tot, True)} kB\n"
    if which in ("both", "free-only"):
        lines += f"SwapFree: {k.num(fre, True)} kB\n"
    k.files["/proc/meminfo"] = lines
    unit = ctx.int("mem_unit", 1, 4096)
    k.sysinfo = (1, 2, 3, 4, tot, fre, unit)
    vm = ctx.choice("vmstat", ["both", "no-file", "no-pswpin", "no-pswpout", "EACCES", "EIO"])      # absent, incomplete, or present but not to be opened
    pin_, pout = ctx.int("pswpin", 0, 2**52), ctx.int("pswpout", 0, 2**52)
    if vm in ("EACCES", "EIO"):
        k.files["/proc/vmstat"] = simk.oserr({"EACCES": 13, "EIO": 5}[vm], "/proc/vmstat")
    elif vm != "no-file":
        body = "nr_free_pages 5\n"
        if vm != "no-pswpin":
            body += f"pswpin {k.num(pin_, True)}\n"
        body += "pgfault 77\n"
        if vm != "no-pswpout":
            body += f"pswpout {k.num(pout, True)}\n"
        k.files["/proc/vmstat"] = body + "pgmajfault 3\n"
    with k.installed():
        with warnings.catch_warnings(record=True) as w:
            warnings.simplefilter("always")
            r = psutil.swap_memory()
    ctx.observe("swap_memory", tuple(r))
    total = tot * 1024 if has_swap else tot * unit
    free = fre * 1024 if has_swap else fre * unit
    ctx.prove(ctx.all([ctx.eq(r.total, total), ctx.eq(r.free, free), ctx.eq(r.used, total - free)]), "swap-fields")
    if ctx.symbolic:
        src = getattr(r.percent, "round_src", None)
        if src is not None:
            ctx.prove(ctx.all([ctx.neg(ctx.eq(total, 0)), ctx.is_ratio(src[0], 100 * (total - free), total), src[1] == 1]), "swap-percent")
        else:
            ctx.prove(ctx.all([ctx.eq(total, 0), ctx.eq(r.percent, 0)]), "swap-percent")
    else:
        ctx.prove(r.percent == (round(float(total - free) / total * 100, 1) if total else 0.0), "swap-percent")
    msgs = [str(x.message) for x in w if issubclass(x.category, RuntimeWarning)]
    if vm == "both":
        ctx.prove(ctx.all([ctx.eq(r.sin, pin_ * 4096), ctx.eq(r.sout, pout * 4096), not msgs]), "swap-sin-sout")
    else:
        ctx.prove(ctx.all([ctx.eq(r.sin, 0), ctx.eq(r.sout, 0), len(msgs) == 1 and "sin" in msgs[0] and "sout" in msgs[0]]), "swap-missing-vmstat-warns")
