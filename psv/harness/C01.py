"""C01 — Signals and setters never reach a recycled PID or a process group.

Real code executed: psutil.Process.__init__/_init/_get_ident/is_running/_raise_if_pid_reused/_send_signal/send_signal/suspend/resume/
terminate/kill/nice/ionice/rlimit/cpu_affinity, process_iter, _pslinux.Process.create_time/nice_set/ionice_set/rlimit/cpu_affinity_set/
_get_eligible_cpus, wrap_exceptions.
"""
import errno
import signal

from psv import simk
from psv.run import harness
from psv.simk import _psposix, psutil


P, Q = 77, 80
EVENTS = ["exit-to-zombie", "reap", "exit-and-reap", "reuse-live", "reuse-zombie", "is_running()", "process_iter()", "name()", "wait(0)"]
MUTATORS = ["send_signal", "suspend", "resume", "terminate", "kill", "nice", "ionice", "rlimit", "cpu_affinity"]

META = dict(
    assumptions=[
        "incarnations of one PID have pairwise different start ticks (the assumption psutil documents in _get_ident)",
        "kernel events happen between API calls, not inside one (the inherent check-then-act window inside a single call is outside the claim)",
        "histories contain no system clock steps (identity under clock steps is C02's subject)",
        "kernel stubs: os.kill / setpriority / ioprio_set / prlimit / sched_setaffinity fail with ESRCH when no task has that id and otherwise record the delivery (pid and the very argument terms)",
    ],
    stubs=["os.kill", "cext_posix.setpriority", "cext.proc_ioprio_set", "resource.prlimit", "cext.proc_cpu_affinity_set", "procfs records of the simulated table"],
    bounds=dict(quick=dict(history="K<=2 events over PID 77 (+ bystander 80), then one mutator with symbolic arguments (K=3 for send_signal)", reuses="<= 2"),
                thorough=dict(history="K<=4 events", reuses="<= 3")),
    outside=["two incarnations in the same clock tick", "the check-then-act window inside one call", "longer histories"],
    labels=["recycled-raises-NoSuchProcess-nothing-delivered", "delivered-exactly-to-own-pid-with-exact-args", "never-pid<=0-never-bystander", "gone-raises-NoSuchProcess", "negative-pid-ValueError", "pid0-signal-ValueError"],
)


def _mutate(ctx, p, what):
    """returns (expected deliveries as list of (kind, args) or None when args may be rejected, call thunk)"""
    if what == "send_signal":
        sig = ctx.int("sig", -(2**31), 2**31 - 1)
        return [("kill", (sig,))], lambda: p.send_signal(sig), True
    if what in ("suspend", "resume", "terminate", "kill"):
        sig = {"suspend": signal.SIGSTOP, "resume": signal.SIGCONT, "terminate": signal.SIGTERM, "kill": signal.SIGKILL}[what]
        return [("kill", (sig,))], getattr(p, what), True
    if what == "nice":
        v = ctx.int("nice", -(2**31), 2**31 - 1)
        return [("setpriority", (v,))], lambda: p.nice(v), True
    if what == "ionice":
        c = ctx.int("ioclass", -1, 5)
        v = ctx.int("iovalue", -2, 9)
        return [("ioprio_set", (c, v))], lambda: p.ionice(c, v), False
    if what == "rlimit":
        res = ctx.int("resource", 0, 16)
        soft, hard = ctx.int("soft", -1, 2**63), ctx.int("hard", -1, 2**63)
        return [("prlimit", (res, (soft, hard)))], lambda: p.rlimit(res, (soft, hard)), False
    if what == "cpu_affinity":
        cpus = [c for c in (0, 1, 2, 5) if ctx.flag(f"cpu{c}")]
        if not cpus:
            return None, lambda: p.cpu_affinity([]), False
        return [("sched_setaffinity", (tuple(cpus),))], lambda: p.cpu_affinity(cpus), False
    raise AssertionError(what)


def _same_args(ctx, got, want):
    if isinstance(got, tuple) and isinstance(want, tuple):
        if len(got) != len(want):
            return False
        return ctx.all([_same_args(ctx, g, w) for g, w in zip(got, want)])
    if isinstance(want, tuple) and isinstance(got, (list, tuple)):
        return sorted(got) == sorted(want)
    return ctx.eq(got, want)


NAMES = [b"cat", b"job (batch) 17", b"job (batch) 18", b") ("]
POPEN_EVENTS = ["exit-to-zombie", "exit-and-reap", "reuse-live", "status-collected", "is_running()", "wait(0)"]
DENY_EVENTS = ["exit-and-reap", "reuse-live", "stat-unreadable", "stat-readable-again", "is_running()"]


@harness("C01.history",
         quick=[dict(K=K, what=w) for w in MUTATORS for K in ((0, 1, 2, 3) if w == "send_signal" else (2,))]
         + [dict(K=2, what=w, variant="names") for w in ("terminate", "nice")] + [dict(K=3, what=w, variant="deny") for w in ("kill", "nice", "cpu_affinity")]
         + [dict(K=3, what=w, variant="popen") for w in ("terminate", "nice")] + [dict(K=2, what=w, variant="forked") for w in ("kill", "nice")] + [dict(K=1, what=w, variant="stopped") for w in ("terminate", "kill", "resume")],
         thorough=[dict(K=K, what=w) for w in MUTATORS for K in ((3, 4) if w in ("send_signal", "nice", "cpu_affinity") else (3,))]
         + [dict(K=3, what=w, variant="names") for w in MUTATORS] + [dict(K=K, what=w, variant="deny") for w in MUTATORS for K in (3, 4)] + [dict(K=4, what=w, variant="popen") for w in MUTATORS] + [dict(K=3, what=w, variant="forked") for w in MUTATORS] + [dict(K=2, what=w, variant="stopped") for w in MUTATORS])
def history(ctx, K, what, variant=None):
    """variant "names": every incarnation carries a name from NAMES (parentheses and blanks that imitate the end of the name field)
    and the identity check must not depend on it; variant "deny": /proc/<pid>/stat may turn unreadable (EACCES) and readable again
    between calls, and may be unreadable when the object is created (hidepid, dropped privileges); variant "popen": the object is a
    psutil.Popen over a subprocess.Popen stand-in whose exit status may be collected at some point (event `status-collected`:
    returncode set, as poll()/wait()/communicate() do); variant "forked": the object was built by a process for ITSELF (pid ==
    os.getpid() at that time) and is used after a fork by the child, for which it denotes the parent; variant "stopped": the target is
    in the stopped state (T) -- exactly the signal asked for is delivered, nothing else.  Event `wait(0)`: Process.wait(timeout=0)
    (os.waitpid answers ECHILD except for the Popen variant's own child, whose status it hands out once)"""
    k = simk.Kernel(ctx)
    simk.system_files(k)
    inc = [ctx.int("start0", 0, 10**7)]
    state = {"listed": True, "zombie": False, "inc": 0, "comm": ctx.choice("name0", NAMES) if variant == "names" else b"cat",
             "denied": variant == "deny" and ctx.flag("stat_unreadable_at_creation")}
    simk.full_process(k, 1, ppid=0, comm="init")
    simk.full_process(k, P)
    simk.full_process(k, Q, comm="bystander")

    def stat_file():
        if not state["listed"]:
            raise simk.oserr(errno.ENOENT, f"/proc/{P}/stat")
        if state["denied"]:
            raise simk.oserr(errno.EACCES, f"/proc/{P}/stat")
        return simk.stat_record(k, P, state["comm"], b"Z" if state["zombie"] else b"T" if variant == "stopped" else b"S", {4: 1, 22: inc[state["inc"]]})

    k.files[f"/proc/{P}/stat"] = stat_file
    k.dirs["/proc"] = ["1", str(P), str(Q)]
    log = ["stat unreadable at creation"] if state["denied"] else []

    def set_listed(v):
        state["listed"] = v
        k.dirs["/proc"] = ["1", str(P), str(Q)] if v else ["1", str(Q)]
        (k.procs.add if v else k.procs.discard)(P)

    import contextlib

    class _Sub:
        pid, returncode, stdin, stdout, stderr = P, None, None, None, None

        def __init__(self, *a, **kw):
            pass

        def poll(self):
            return self.returncode

    class _Subprocess:
        Popen = _Sub

    def waitpid(pid, flags):
        # os.waitpid(): only the psutil.Popen variant's process is a child of ours; its status can be collected once
        if pid != P or variant != "popen" or _Sub.returncode is not None or state["inc"] != 0 or not state["listed"]:
            raise ChildProcessError(errno.ECHILD, "No child processes")
        if not state["zombie"]:
            return (0, 0)
        set_listed(False)
        return (P, 0)

    k.waitpid_fn = waitpid
    d = _psposix.wait_pid.__defaults__
    assert len(d) == 7, d
    wait_env = [(_psposix.wait_pid, "__defaults__", (d[0], d[1], waitpid, k.timer, d[4], k.sleep, d[6]))]
    with k.installed(extra=wait_env + ([(psutil, "subprocess", _Subprocess)] if variant == "popen" else [])), contextlib.ExitStack() as stack:
        if variant == "forked":
            k.os_proxy.getpid = lambda: P
        p = psutil.Popen(["child"]) if variant == "popen" else psutil.Process() if variant == "forked" else psutil.Process(P)
        if variant == "forked":
            k.os_proxy.getpid = lambda: 4300           # fork(): the object now lives in the child and denotes its parent
        if ctx.flag("inside_oneshot_block"):      # the whole history and the mutator run inside `with p.oneshot():`
            stack.enter_context(p.oneshot())
            log.append("with p.oneshot():")
        for i in range(K):
            ev = ctx.choice(f"ev{i}", DENY_EVENTS if variant == "deny" else POPEN_EVENTS if variant == "popen" else EVENTS)
            log.append(ev)
            if ev == "status-collected":
                if not state["listed"] or state["zombie"] or state["inc"] != 0:
                    _Sub.returncode = 0           # the exit status can only be collected once the child has exited
            elif ev == "stat-unreadable":
                state["denied"] = True
            elif ev == "stat-readable-again":
                state["denied"] = False
            elif ev == "exit-to-zombie":
                if state["listed"]:
                    state["zombie"] = True
            elif ev == "reap":
                if state["listed"] and state["zombie"]:
                    set_listed(False)
            elif ev == "exit-and-reap":
                set_listed(False)
            elif ev in ("reuse-live", "reuse-zombie"):
                if state["listed"]:
                    continue                      # a PID can only be re-used after its owner was reaped
                n = ctx.int(f"start{len(inc)}", 0, 10**7)
                for old in inc:
                    ctx.assume(ctx.neg(ctx.eq(n, old)))
                inc.append(n)
                state.update(inc=len(inc) - 1, zombie=(ev == "reuse-zombie"))
                if variant == "names":
                    state["comm"] = ctx.choice(f"name{len(inc) - 1}", NAMES)
                set_listed(True)
            elif ev == "is_running()":
                p.is_running()
            elif ev == "process_iter()":
                list(psutil.process_iter())
            elif ev == "wait(0)":
                try:
                    p.wait(0)
                except psutil.TimeoutExpired:
                    pass
            elif ev == "name()":
                try:
                    p.name()
                except psutil.Error:
                    pass
        expected, call, must_deliver = _mutate(ctx, p, what)
        del k.deliveries[:], k.kill_attempts[:]
        try:
            call()
            exc = None
        except (psutil.Error, ValueError, OSError) as e:
            exc = e
    deliveries = list(k.deliveries)
    owner_is_original = state["listed"] and state["inc"] == 0
    recycled = state["listed"] and state["inc"] != 0
    info = f"history={log} mutator={what} exc={exc!r} deliveries={[(d[0], d[1]) for d in deliveries]}"
    ctx.prove(all(d[1] == P for d in deliveries) and all(a[0] > 0 for a in k.kill_attempts), "never-pid<=0-never-bystander", detail=info)
    if recycled:
        # known finding C01-identity-never-readable: an object built while /proc/<pid>/stat was unreadable has the identity
        # (pid, None); if the stat record is unreadable again when the re-use check runs, the new owner's identity is (pid, None)
        # too and the recycled PID passes for the original.  Everything else must hold.
        blind = variant == "deny" and "stat unreadable at creation" in log and state["denied"]
        ctx.prove(isinstance(exc, psutil.NoSuchProcess) and exc.pid == P and not deliveries and not k.kill_attempts,
                  "recycled-raises-NoSuchProcess-nothing-delivered" + ("[identity-unreadable-at-creation-and-at-the-call]" if blind else ""), detail=info)
    elif not state["listed"]:
        ctx.prove(isinstance(exc, (psutil.NoSuchProcess, ValueError)) and not deliveries, "gone-raises-NoSuchProcess", detail=info)
    else:
        assert owner_is_original
        ok = [len(deliveries) <= 1]
        unverifiable = variant == "deny" and (state["denied"] or "stat unreadable at creation" in log or "stat-unreadable" in log)
        if must_deliver and not unverifiable:
            ok.append(exc is None and len(deliveries) == 1)
        if deliveries and expected is not None:
            kind, args = expected[0]
            ok.append(deliveries[0][0] == kind and _same_args(ctx, deliveries[0][2], args))
        if exc is not None:
            # invalid arguments may be refused (ValueError, or the kernel's EINVAL): what matters here is that the
            # live original process is never reported as gone
            # (when the identity could not be read at some point the statement does not require the call to go through)
            ok.append(unverifiable or not isinstance(exc, psutil.NoSuchProcess))
        ctx.prove(ctx.all(ok), "delivered-exactly-to-own-pid-with-exact-args", detail=info)


@harness("C01.bad_pid", quick=[dict(kind=k_) for k_ in ("negative", "zero")])
def bad_pid(ctx, kind):
    k = simk.Kernel(ctx)
    simk.system_files(k)
    simk.full_process(k, 1, ppid=0, comm="init")
    if kind == "negative":
        pid = ctx.int("pid", -(2**63), -1)
        with k.installed():
            n0 = k.naccess_total
            try:
                psutil.Process(pid)
                exc = None
            except ValueError as e:
                exc = e
            n1 = k.naccess_total
        ctx.prove(exc is not None and n1 == n0 and not k.deliveries and not k.kill_attempts, "negative-pid-ValueError")
        return
    # a platform that lists PID 0 (the simulated table does): signals to it must be refused, nothing delivered
    simk.full_process(k, 0, ppid=0, comm="swapper")
    k.dirs["/proc"] = ["0", "1"]
    what = ctx.choice("what", ["send_signal", "suspend", "resume", "terminate", "kill"])
    sig = ctx.int("sig", 0, 64)
    with k.installed():
        p = psutil.Process(0)
        try:
            p.send_signal(sig) if what == "send_signal" else getattr(p, what)()
            exc = None
        except ValueError as e:
            exc = e
    ctx.prove(exc is not None and not k.deliveries and not k.kill_attempts, "pid0-signal-ValueError", detail=f"{what}: {exc!r}")
