"""C18 — nice/ionice/cpu_affinity/rlimit: get reads the kernel, set changes exactly that.

Real code executed: psutil.Process.nice/ionice/rlimit/cpu_affinity, _pslinux.Process.nice_get/nice_set/ionice_get/ionice_set/rlimit/
cpu_affinity_get/cpu_affinity_set/_get_eligible_cpus/_read_status_file, per_cpu_times, wrap_exceptions, _raise_if_pid_reused.
Checked against the simulated kernel; the live-child clause of the statement needs a real kernel and is not decided here.
"""
import z3

from psv import pattern, simk, sym
from psv.run import harness
from psv.simk import psutil

P, Q = 77, 80
NCPU = 6

META = dict(
    assumptions=[
        "kernel stubs: setpriority clamps to [-20,19]; ioprio_set accepts class 0..3 and stores (class, data); sched_setaffinity installs mask AND allowed and fails with EINVAL when that is empty; prlimit stores the pair and fails with EINVAL when soft > hard (hard != RLIM_INFINITY)",
        "the eligible CPUs of a process are published as the kernel's range list on the Cpus_allowed_list line of /proc/<pid>/status (e.g. `0,2-3`)",
        "a 'valid' CPU list is a non-empty subset of the eligible CPUs (duplicates allowed)",
        "the live-child clause of the statement is outside this technique (needs a real kernel)",
    ],
    stubs=["cext_posix.getpriority/setpriority", "cext.proc_ioprio_get/set", "cext.proc_cpu_affinity_get/set", "resource.prlimit", "/proc/<pid>/status, /proc/stat"],
    bounds=dict(quick=dict(nice="any int", ionice="class in [-1,5] (or None), level in [-2,9] (or None)", cpus=f"{NCPU} CPUs, symbolic allowed mask, symbolic request incl. duplicates and out-of-range", rlimit="resource index 0..15, soft/hard in [-1, 2^63], limits tuple length 0..3"),
                thorough=dict(nice="any int", ionice="as quick", cpus="as quick", rlimit="as quick")),
    outside=["more than 6 CPUs", "the C-level packing of the I/O priority word (decided by the cir harness of C17 when present)"],
    labels=["nice-roundtrip", "ionice-roundtrip", "ionice-invalid-ValueError", "affinity-roundtrip", "affinity-empty-selects-all-eligible", "affinity-invalid-ValueError", "rlimit-roundtrip", "rlimit-not-a-pair-ValueError", "bystander-untouched", "after-fork-targets-the-named-process", "nice-get-errno-protocol"],
)


def world(ctx, allowed=None):
    k = simk.Kernel(ctx)
    simk.system_files(k)
    k.files["/proc/stat"] = "cpu  1 2 3 4 5 6 7 8 9 10\n" + "".join(f"cpu{i} 1 2 3 4 5 6 7 8 9 10\n" for i in range(NCPU)) + "btime 1000\n"
    for pid in (P, Q):
        simk.full_process(k, pid)
        k.settings[pid] = dict(nice=3, ioprio=(2, 4), affinity=[0, 1], rlimits={}, allowed=list(range(NCPU)))
    if allowed is not None:
        k.settings[P]["allowed"] = allowed
        k.settings[P]["affinity"] = list(allowed)
        k.files[f"/proc/{P}/status"] = simk.STATUS_TMPL.format(comm="cat", pid=P, ppid=1).replace("Cpus_allowed_list:\t0-3", "Cpus_allowed_list:\t" + ranges(allowed))
    return k


def ranges(cpus):
    """the kernel's %*pbl rendering of a CPU mask: `0,2-3,5`"""
    out, cpus = [], sorted(cpus)
    i = 0
    while i < len(cpus):
        j = i
        while j + 1 < len(cpus) and cpus[j + 1] == cpus[j] + 1:
            j += 1
        out.append(str(cpus[i]) if i == j else f"{cpus[i]}-{cpus[j]}")
        i = j + 1
    return ",".join(out)


def snapshot(k, pid):
    s = k.settings[pid]
    return (s["nice"], s["ioprio"], tuple(s["affinity"]), tuple(sorted(s["rlimits"].items())))


def same(ctx, a, b):
    if isinstance(a, tuple) and isinstance(b, tuple):
        return len(a) == len(b) and ctx.all([same(ctx, x, y) for x, y in zip(a, b)])
    return ctx.eq(a, b)


@harness("C18.nice")
def nice(ctx):
    k = world(ctx)
    v = ctx.int("nice", -20, 19)
    with k.installed():
        p = psutil.Process(P)
        before_q = snapshot(k, Q)
        ctx.prove(p.nice() == 3, "nice-get-reads-kernel")
        ctx.guard("nice-roundtrip", p.nice, v)
        got = p.nice()
    ctx.prove(ctx.all([ctx.eq(got, v), ctx.eq(k.settings[P]["nice"], v)]), "nice-roundtrip")
    ctx.prove(same(ctx, snapshot(k, Q), before_q), "bystander-untouched")


@harness("C18.ionice")
def ionice(ctx):
    k = world(ctx)
    c_none = ctx.flag("class_is_None")
    v_none = ctx.flag("value_is_None")
    c = None if c_none else ctx.int("ioclass", -1, 5)
    v = None if v_none else ctx.int("value", -2, 9)
    with k.installed():
        p = psutil.Process(P)
        before_p, before_q = snapshot(k, P), snapshot(k, Q)
        g0 = p.ionice()
        ctx.prove(int(g0.ioclass) == 2 and g0.value == 4, "ionice-get-reads-kernel")
        if c_none and v_none:
            return                                   # that is the get form
        try:
            p.ionice(c, v)
            exc = None
        except (ValueError, OSError) as e:
            exc = e
        after = p.ionice() if exc is None else None
    ctx.prove(same(ctx, snapshot(k, Q), before_q), "bystander-untouched")
    vv = 0 if v is None else v
    # the invalid requests the statement lists: level outside 0-7, a level for the idle/none class, a level without a class
    listed_invalid = c_none or bool(ctx.any([vv < 0, vv > 7])) or (bool(ctx.neg(ctx.eq(vv, 0))) and bool(ctx.any([ctx.eq(c, 3), ctx.eq(c, 0)])))
    if listed_invalid:
        ctx.prove(isinstance(exc, ValueError) and same(ctx, snapshot(k, P), before_p), "ionice-invalid-ValueError", detail=f"class={c} value={v} exc={exc!r}")
    elif bool(ctx.all([c >= 0, c <= 3])):
        ctx.prove(exc is None and ctx.all([ctx.eq(int(after.ioclass) if not sym.is_sym(after.ioclass) else after.ioclass, c), ctx.eq(after.value, vv)]) and same(ctx, k.settings[P]["ioprio"], (c, vv)),
                  "ionice-roundtrip", detail=f"class={c} value={v} exc={exc!r}")
    else:
        ctx.prove(exc is not None and same(ctx, snapshot(k, P), before_p), "ionice-unknown-class-rejected", detail=f"class={c}")


@harness("C18.ionice_get")
def ionice_get(ctx):
    """the get form reports what the kernel holds, for EVERY (class, level) record the kernel can hold -- also the ones psutil's own
    setter never writes (an idle-class record with a non-zero level, as `ionice -c3` of util-linux stores it; the (none, 4) default)"""
    k = world(ctx)
    c, d = ctx.int("kernel_class", 0, 3), ctx.int("kernel_level", 0, 7)
    k.settings[P]["ioprio"] = (c, d)
    with k.installed():
        g = psutil.Process(P).ionice()
    ctx.prove(ctx.all([ctx.eq(g.ioclass if sym.is_sym(g.ioclass) else int(g.ioclass), c), ctx.eq(g.value, d)]), "ionice-get-reads-kernel", detail=f"{g}")


@harness("C18.setter_errors", quick=[dict(what=w) for w in ("nice", "ionice", "cpu_affinity", "rlimit")])
def setter_errors(ctx, what):
    """a set that the kernel refuses (EPERM: the process belongs to somebody else; ESRCH: it went away between psutil's own check and
    the system call) raises AccessDenied / NoSuchProcess -- it never returns as if it had worked -- and changes nothing"""
    import errno as _errno

    k = world(ctx)
    err = ctx.choice("kernel_answer", ["EPERM", "ESRCH"])
    with k.installed():
        p = psutil.Process(P)
        before_p, before_q = snapshot(k, P), snapshot(k, Q)
        if err == "EPERM":
            k.denied = {P}
        else:
            # gone for the system calls only: the /proc entry is still there (the window between the re-use check and the call)
            k.procs.discard(P)
        try:
            {"nice": lambda: p.nice(5), "ionice": lambda: p.ionice(psutil.IOPRIO_CLASS_BE, 3), "cpu_affinity": lambda: p.cpu_affinity([0]),
             "rlimit": lambda: p.rlimit(psutil.RLIMIT_NOFILE, (10, 20))}[what]()
            exc = None
        except psutil.Error as e:
            exc = e
    want = psutil.AccessDenied if err == "EPERM" else psutil.NoSuchProcess
    ctx.prove(isinstance(exc, want) and exc.pid == P, "refused-set-raises", detail=f"{what}: kernel answers {err}, psutil: {exc!r}")
    ctx.prove(same(ctx, snapshot(k, P), before_p) and same(ctx, snapshot(k, Q), before_q), "refused-set-changes-nothing")


@harness("C18.affinity", quick=[dict(mode=m) for m in ("subset", "empty", "invalid")])
def affinity(ctx, mode):
    allowed = [c for c in range(NCPU) if ctx.flag(f"allowed{c}")]
    if not allowed:
        ctx.assume(False)
    k = world(ctx, allowed)
    saved = None
    if ctx.symbolic:
        import re as _re
        from psv.simk import _pslinux
        inner = _pslinux.Process._get_eligible_cpus
        saved = (inner, inner.__defaults__)
    with k.installed():
        p = psutil.Process(P)
        before_p, before_q = snapshot(k, P), snapshot(k, Q)
        ctx.prove(p.cpu_affinity() == sorted(allowed), "affinity-get-reads-kernel")
        if mode == "empty":
            ctx.guard("affinity-empty-selects-all-eligible", p.cpu_affinity, [])
            got = p.cpu_affinity()
            ctx.prove(got == sorted(allowed) and k.settings[P]["affinity"] == sorted(allowed), "affinity-empty-selects-all-eligible", detail=f"allowed={ranges(allowed)} got={got}")
        elif mode == "subset":
            req = [c for c in allowed if ctx.flag(f"req{c}")]
            if not req:
                ctx.assume(False)
            dup = ctx.flag("with_duplicate")
            arg = req + ([req[0]] if dup else [])
            ctx.guard("affinity-roundtrip", p.cpu_affinity, arg)
            got = p.cpu_affinity()
            ctx.prove(got == sorted(req) and k.settings[P]["affinity"] == sorted(req), "affinity-roundtrip", detail=f"allowed={ranges(allowed)} req={arg} got={got}")
        else:
            # a list naming only non-existent or ineligible CPUs
            bad = [c for c in range(NCPU) if c not in allowed and ctx.flag(f"bad{c}")] + ([NCPU + 3] if ctx.flag("out_of_range") else []) + ([-1] if ctx.flag("negative") else [])
            if not bad:
                ctx.assume(False)
            try:
                p.cpu_affinity(bad)
                exc = None
            except (ValueError, OSError) as e:
                exc = e
            ctx.prove(isinstance(exc, ValueError) and same(ctx, snapshot(k, P), before_p), "affinity-invalid-ValueError", detail=f"allowed={ranges(allowed)} req={bad} exc={exc!r}")
    ctx.prove(same(ctx, snapshot(k, Q), before_q), "bystander-untouched")


RES = [psutil.RLIMIT_AS, psutil.RLIMIT_CORE, psutil.RLIMIT_CPU, psutil.RLIMIT_DATA, psutil.RLIMIT_FSIZE, psutil.RLIMIT_MEMLOCK, psutil.RLIMIT_NOFILE, psutil.RLIMIT_NPROC, psutil.RLIMIT_RSS,
       psutil.RLIMIT_STACK, psutil.RLIMIT_LOCKS, psutil.RLIMIT_MSGQUEUE, psutil.RLIMIT_NICE, psutil.RLIMIT_RTPRIO, psutil.RLIMIT_RTTIME, psutil.RLIMIT_SIGPENDING]


@harness("C18.rlimit", quick=[dict(n=n) for n in (0, 1, 2, 3)])
def rlimit(ctx, n):
    k = world(ctx)
    res = ctx.choice("resource", RES)
    vals = [ctx.int(f"lim{i}", -1, 2**63) for i in range(n)]
    if n == 2:
        ctx.assume(ctx.any([vals[0] <= vals[1], ctx.eq(vals[1], -1)]))       # soft <= hard, or hard = RLIM_INFINITY
        ctx.assume(ctx.any([vals[0] >= 0, ctx.eq(vals[0], -1)]))
    container = ctx.choice("container", [tuple, list])
    with k.installed():
        p = psutil.Process(P)
        before_p, before_q = snapshot(k, P), snapshot(k, Q)
        try:
            p.rlimit(res, container(vals))
            exc = None
        except (ValueError, OSError) as e:
            exc = e
        if n == 2:
            got = p.rlimit(res) if exc is None else None
            ctx.prove(exc is None and same(ctx, tuple(got), tuple(vals)) and same(ctx, tuple(k.settings[P]["rlimits"][res]), tuple(vals)), "rlimit-roundtrip", detail=f"{exc!r}")
            others = [r for r in RES if r != res]
            ctx.prove(all(r not in k.settings[P]["rlimits"] for r in others), "rlimit-roundtrip", detail="other resources untouched")
        else:
            ctx.prove(isinstance(exc, ValueError) and same(ctx, snapshot(k, P), before_p), "rlimit-not-a-pair-ValueError", detail=f"{n} values: {exc!r}")
    ctx.prove(same(ctx, snapshot(k, Q), before_q), "bystander-untouched")


def _linux_imported_by(pid):
    """a second copy of the package, imported from /repo under an alias while os.getpid() answers `pid`: the package as process
    `pid` imported it (module-level state computed at import belongs to that process)"""
    import sys

    from psv import plat

    alias = f"psv_linux_imported_by_{pid}"
    if alias in plat._LOADED:
        return plat._LOADED[alias][0]
    import psutil._psutil_linux as real_linux
    import psutil._psutil_posix as real_posix

    def pre(mods, lab):
        sys.modules[f"{alias}._psutil_linux"] = real_linux
        sys.modules[f"{alias}._psutil_posix"] = real_posix

    pkg, _, _ = plat.load(alias, sys.platform, (), "posix", pre, patch_getpid=pid)
    return pkg


@harness("C18.after_fork", quick=[dict(what=w) for w in ("nice", "ionice", "cpu_affinity", "rlimit")])
def after_fork(ctx, what):
    """the package was imported by process P; the code now runs in a forked child (another PID) and addresses P -- its parent --
    through a Process object: get reads P's setting and set changes P's, the caller's own settings are neither read nor touched"""
    pkg = _linux_imported_by(P)
    k = world(ctx)
    CALLER = 4242
    simk.full_process(k, CALLER, ppid=P)
    k.settings[CALLER] = dict(nice=-7, ioprio=(1, 1), affinity=[2], rlimits={r: (7, 8) for r in RES}, allowed=list(range(NCPU)))
    k.dirs["/proc"] = sorted(set(k.dirs.get("/proc", [])) | {str(CALLER)})
    with k.installed(pkg=pkg):
        assert k.os_proxy.getpid() == CALLER
        p = pkg.Process(P)
        mine = snapshot(k, CALLER)
        if what == "nice":
            v = ctx.int("value", -20, 19)
            g0 = p.nice()
            ctx.prove(ctx.eq(g0, k.settings[P]["nice"]), "after-fork-targets-the-named-process", detail=f"nice() -> {g0}")
            ctx.guard("after-fork-targets-the-named-process", p.nice, v)
            ctx.prove(ctx.all([ctx.eq(k.settings[P]["nice"], v), ctx.eq(p.nice(), v)]), "after-fork-targets-the-named-process", detail="nice(set)")
        elif what == "ionice":
            lvl = ctx.int("level", 0, 7)
            g0 = p.ionice()
            ctx.prove((int(g0.ioclass), g0.value) == tuple(k.settings[P]["ioprio"]), "after-fork-targets-the-named-process", detail=f"ionice() -> {g0}")
            ctx.guard("after-fork-targets-the-named-process", p.ionice, pkg.IOPRIO_CLASS_BE, lvl)
            ctx.prove(same(ctx, tuple(k.settings[P]["ioprio"]), (2, lvl)), "after-fork-targets-the-named-process", detail="ionice(set)")
        elif what == "cpu_affinity":
            want = ctx.choice("cpus", [[0], [1, 3], [0, 1, 2, 3]])
            g0 = p.cpu_affinity()
            ctx.prove(g0 == list(k.settings[P]["affinity"]), "after-fork-targets-the-named-process", detail=f"cpu_affinity() -> {g0}")
            ctx.guard("after-fork-targets-the-named-process", p.cpu_affinity, want)
            ctx.prove(sorted(k.settings[P]["affinity"]) == want and p.cpu_affinity() == want, "after-fork-targets-the-named-process", detail="cpu_affinity(set)")
        else:
            res = ctx.choice("resource", RES)
            soft = ctx.int("soft", 0, 2**40)
            g0 = p.rlimit(res)
            ctx.prove(tuple(g0) == (1024, 4096), "after-fork-targets-the-named-process", detail=f"rlimit({res}) -> {g0}, the caller's own limits are (7, 8)")
            ctx.guard("after-fork-targets-the-named-process", p.rlimit, res, (soft, 2**41))
            ctx.prove(same(ctx, tuple(k.settings[P]["rlimits"].get(res, ())), (soft, 2**41)) and same(ctx, tuple(p.rlimit(res)), (soft, 2**41)), "after-fork-targets-the-named-process", detail="rlimit(set)")
        ctx.prove(same(ctx, snapshot(k, CALLER), mine), "after-fork-targets-the-named-process", detail="the calling process's own settings changed")


@harness("C18.getpriority_c")
def getpriority_c(ctx):
    """psutil_posix_getpriority, the C wrapper behind nice() (LLVM IR of the current tree, cir engine): getpriority(2) returns the
    nice value itself, so -1 is both a legitimate answer and the error return and only errno tells them apart.  For every nice value
    the kernel returns (-1 included) and WHATEVER errno held before the call, a successful call yields that value; a failed call
    (-1 with errno set by the call) raises OSError."""
    import z3

    from psv import cir
    from psv.harness import C17 as c17

    mod = c17.module("_psutil_posix.c")
    v = dict(prio=ctx.int("kernel_nice", -20, 19), stale=ctx.int("errno_before_the_call", 0, 133), err=ctx.int("errno_of_the_failure", 1, 133), fails=ctx.flag("getpriority_fails"))
    if ctx.symbolic:
        prio, stale, err, fails = z3.BitVec("kernel_nice", 32), z3.BitVec("errno_before_the_call", 32), z3.BitVec("errno_of_the_failure", 32), z3.Bool("getpriority_fails")
        pre = [prio >= -20, prio <= 19, stale >= 0, stale <= 133, err >= 1, err <= 133]
    else:
        prio, stale, err, fails = z3.BitVecVal(v["prio"], 32), z3.BitVecVal(v["stale"], 32), z3.BitVecVal(v["err"], 32), z3.BoolVal(bool(v["fails"]))
        pre = []
    state = {"ints": [lambda w: z3.BitVecVal(77, w)]}

    def errno_loc(I, st, w, c):
        if not hasattr(st, "errno_key") or st.errno_key not in st.objs:
            st.errno_key = st.new_obj("errno", 4, {})
            I.store(st, cir.Ptr(st.errno_key, 0, 0, 4), 4, stale)
            st.pc.extend(pre)
        return cir.Ptr(st.errno_key, 0, 0, 4)

    def getpriority(I, st, w, c, which, who):
        p = errno_loc(I, st, w, c)
        old = I.load(st, p, 4, False)
        I.store(st, p, 4, z3.If(fails, err, old))          # a successful call leaves errno alone
        st.log.append(("getpriority", who))
        return z3.If(fails, z3.BitVecVal(-1, 32), prio)

    def build(I, st, w, c, fmt, *a):
        st.log.append(("build", a))
        return cir.newobj(I, st, "int")

    def raise_(I, st, w, c, *a):
        st.log.append(("raise",))
        return cir.NULL

    stubs = {"@PyArg_ParseTuple": c17.parse_stub(state), "@getpriority": getpriority, "@__errno_location": errno_loc, "@PyErr_SetFromErrno": raise_, "@Py_BuildValue": build, "@Py_IncRef": cir.nop, "@Py_DecRef": cir.nop}
    I = cir.Interp(mod, stubs)
    res = I.run("@psutil_posix_getpriority", [cir.NULL, cir.NULL])
    ok = bool(res)
    for st, ret in res:
        if any(x[0] == "raise" for x in st.log):
            ok &= bool(I.oblige(st, fails, "getpriority: OSError raised although the call succeeded (a stale errno, or the legitimate answer -1, was taken for a failure)"))
        else:
            built = [x[1] for x in st.log if x[0] == "build"]
            ok &= bool(I.oblige(st, z3.And(z3.Not(fails), built[0][0] == prio) if built else z3.BoolVal(False), "getpriority: the value returned is not the kernel's nice value of a successful call"))
    fs = [f for f in I.findings if f[0].startswith("getpriority:")]
    m = fs[0][1] if fs else None
    assign = {}
    if m is not None:
        vals = {d.name(): m[d] for d in m.decls()}
        for nm in ("kernel_nice", "errno_before_the_call", "errno_of_the_failure"):
            if nm in vals:
                x = vals[nm].as_long()
                assign[nm] = x - 2**32 if x >= 2**31 else x
        if "getpriority_fails" in vals:
            assign["getpriority_fails"] = bool(vals["getpriority_fails"])
    ctx.external("nice-get-errno-protocol", ok and not fs, assign, detail=fs[0][0] if fs else "")
    I.findings = [f for f in I.findings if f not in fs]
    c17.report(ctx, I, ["memory-in-bounds"], lambda m_: {})
