"""C13 — Process memory figures are consistent with the kernel's per-mapping accounting.

Real code executed: psutil.Process.memory_info/memory_full_info/memory_maps/memory_percent, _pslinux.Process.memory_info/
_parse_smaps_rollup/_parse_smaps/memory_full_info/memory_maps/_read_smaps_file, wrap_exceptions, path_exists_strict, virtual_memory.
"""
import collections
import errno

import z3

from psv import seq, simk, sym
from psv.run import harness
from psv.simk import _pslinux, psutil

KEYS = ["Size", "KernelPageSize", "MMUPageSize", "Rss", "Pss", "Pss_Dirty", "Shared_Clean", "Shared_Dirty", "Private_Clean", "Private_Dirty",
        "Referenced", "Anonymous", "LazyFree", "AnonHugePages", "ShmemPmdMapped", "FilePmdMapped", "Shared_Hugetlb", "Private_Hugetlb", "Swap", "SwapPss", "Locked"]
# (the kernel escapes only the newline in a mapping's path: a carriage return, a form feed, the C1 separators reach the reader as they are)
PATHS = [None, "/usr/lib/a b.so", "/x:y", "/l (deleted)", "[heap]", "/opt/two  blanks\tand a tab.so", "/opt/caf\udce9/lib\udcff.so", "/data/blob\rx 1 2 3 4.bin", "/data/a\x0cb\x1cc.so"]
F = ["Rss", "Size", "Pss", "Shared_Clean", "Shared_Dirty", "Private_Clean", "Private_Dirty", "Referenced", "Anonymous", "Swap"]
PG = 4096

META = dict(
    assumptions=[
        "smaps records are rendered as fs/proc/task_mmu.c does: header `start-end perms offset dev inode [path]`, then `Key: <n> kB` lines, optional THPeligible/ProtectionKey/VmFlags lines",
        "the roll-up file holds the kernel's sums over the same mappings (the real kernel's roll-up Pss can be slightly higher; that difference is the kernel's, not psutil's)",
        "one mapping is symbolic at a time, the others hold concrete values; every kB value is in [0, 2^40]",
        "text->number boundary: digit placeholders, int shadowed in the psutil modules' globals",
    ],
    stubs=["open() of /proc/<pid>/{statm,smaps,smaps_rollup}, /proc/meminfo", "os.stat answering a symbolic yes/no for the ' (deleted)' path"],
    bounds=dict(quick=dict(mappings="0..2", rollup=["present", "absent", "ENOENT", "ESRCH"]), thorough=dict(mappings="0..3 with every roll-up state, 4 with the roll-up absent", rollup=["present", "absent", "ENOENT", "ESRCH"])),
    outside=["mapping paths with symbolic characters (concrete witnesses: blanks, tab, colon, ' (deleted)', non-UTF-8 bytes)", "more than 4 mappings"],
    labels=["memory_info-pages-times-pagesize", "uss-pss-swap[present]", "uss-pss-swap[absent]", "uss-pss-swap[enoent]", "row-identity", "row-figures", "one-row-per-distinct-path", "grouped-sums",
            "memory_percent-formula", "memory_percent-invalid-ValueError"],
)


def build(ctx, k, m, rollup):
    maps, text = [], ""
    for i in range(m):
        sym_this = (i == 0)
        vals = {key: (ctx.int(f"m{i}_{key}", 0, 2**40) if sym_this else 10 * (i + 1) + j) for j, key in enumerate(KEYS)}
        path = ctx.choice(f"path{i}", PATHS)
        opt = {o: ctx.flag(f"m{i}_has_{o}") if sym_this else True for o in ("Private_Hugetlb", "Swap", "VmFlags", "THPeligible", "ProtectionKey")}
        addr = f"{0x400000 + i * 0x10000:08x}-{0x40b000 + i * 0x10000:08x}"
        hdr = f"{addr} r-xp 00000000 08:01 {1234 if path else 0}" + (f"                    {path}" if path else "")
        text += hdr + "\n"
        for key in KEYS:
            if key in opt and not opt[key]:
                continue
            text += f"{key}:{' ' * 10}{k.num(vals[key], True)} kB\n"
        if opt["THPeligible"]:
            text += "THPeligible:    0\n"
        if opt["ProtectionKey"]:
            text += "ProtectionKey:         0\n"
        if opt["VmFlags"]:
            text += "VmFlags: rd ex mr mw me dw sd\n"
        present = {key: (vals[key] if not (key in opt and not opt[key]) else 0) for key in KEYS}
        maps.append((addr, "r-xp", path, present))
    k.files["/proc/77/smaps"] = text
    S = lambda key: ctx.sum([mp[3][key] for mp in maps])   # noqa: E731
    if rollup == "present":
        k.files["/proc/77/smaps_rollup"] = "00400000-7ffd3000 ---p 00000000 00:00 0 [rollup]\n" + "".join(f"{key}: {k.num(S(key), True)} kB\n" for key in KEYS)
    elif rollup == "enoent":
        k.files["/proc/77/smaps_rollup"] = simk.oserr(errno.ENOENT)
    elif rollup == "esrch":
        k.files["/proc/77/smaps_rollup"] = simk.oserr(errno.ESRCH)
    return maps, S


@harness("C13.maps", quick=[dict(m=m, rollup=r) for m in (0, 1, 2) for r in ("present", "absent", "enoent")] + [dict(m=1, rollup="esrch")],
         thorough=[dict(m=m, rollup=r) for m in (0, 1, 2, 3) for r in ("present", "absent", "enoent", "esrch")] + [dict(m=4, rollup="absent")])
def maps_(ctx, m, rollup):
    k = simk.Kernel(ctx)
    simk.system_files(k)
    simk.full_process(k, 77)
    maps, S = build(ctx, k, m, rollup)
    statm = [ctx.int(f"statm{j}", 0, 2**52) for j in range(7)]
    k.files["/proc/77/statm"] = " ".join(k.num(x, True) for x in statm) + "\n"
    exists = {}

    def oracle(p):
        if p not in exists:
            exists[p] = ctx.flag("deleted_path_exists")
        return exists[p]

    k.exists_oracle = oracle
    with k.installed(extra=[(_pslinux, "HAS_PROC_SMAPS_ROLLUP", rollup != "absent")]):
        p = psutil.Process(77)
        mi = p.memory_info()
        fi = p.memory_full_info()
        ext = p.memory_maps(grouped=False)
        grp = p.memory_maps(grouped=True)
    ctx.observe("memory", (tuple(mi), tuple(fi), [tuple(r) for r in ext], [tuple(r) for r in grp]))
    vms, rss, shared, text, lib, data, dirty = [x * PG for x in statm]
    ctx.prove(mi._fields == ("rss", "vms", "shared", "text", "lib", "data", "dirty") and ctx.all([ctx.eq(a, b) for a, b in zip(mi, (rss, vms, shared, text, lib, data, dirty))]),
              "memory_info-pages-times-pagesize")
    ctx.prove(ctx.all([ctx.eq(fi.uss, (S("Private_Clean") + S("Private_Dirty") + S("Private_Hugetlb")) * 1024), ctx.eq(fi.pss, S("Pss") * 1024), ctx.eq(fi.swap, S("Swap") * 1024)]),
              f"uss-pss-swap[{'enoent' if rollup == 'esrch' else rollup}]")
    ctx.prove(ctx.all([ctx.eq(a, b) for a, b in zip(fi[:7], mi)]), "full-extends-info")
    ctx.prove(len(ext) == m, "one-row-per-mapping")

    def shown(path):
        if path is None:
            return "[anon]"
        if path.endswith(" (deleted)") and not oracle(path):
            return path[:-10]
        return path

    for row, (addr, perms, path, present) in zip(ext, maps):
        ctx.prove(row.addr == addr and row.perms == perms and row.path == shown(path), "row-identity")
        ctx.prove(ctx.all([ctx.eq(getattr(row, f.lower()), present[f] * 1024) for f in F]), "row-figures")
    groups = collections.OrderedDict()
    for (addr, perms, path, present) in maps:
        groups.setdefault(shown(path), []).append(present)
    ctx.prove([g.path for g in grp] == list(groups), "one-row-per-distinct-path")
    for g in grp:
        if g.path in groups:
            ctx.prove(ctx.all([ctx.eq(getattr(g, f.lower()), ctx.sum([pr[f] for pr in groups[g.path]]) * 1024) for f in F]), "grouped-sums")


VALID = ["rss", "vms", "shared", "text", "lib", "data", "dirty", "uss", "pss", "swap"]


BAD_NAMES = ["count", "index", "_fields", "_asdict", "_replace", "__len__", "__doc__", "RSS", "rss ", "", "uss,pss"]


@harness("C13.after_aborted_block")
def after_aborted_block(ctx):
    """memory_info() / memory_percent() asked inside a oneshot() block that is then left by an exception, the process's memory changes,
    and they are asked again on the same object: the second answers are those of the second statm record"""
    k = simk.Kernel(ctx)
    simk.system_files(k)
    simk.full_process(k, 77)
    a = [ctx.int(f"rss_pages{i}", 0, 2**40) for i in (0, 1)]
    k.files["/proc/77/statm"] = b"100 " + k.num(a[0]) + b" 25 10 0 30 0\n"
    how = ctx.choice("block_left_by", ["exception", "normally"])

    class Boom(Exception):
        pass

    with k.installed():
        p = psutil.Process(77)
        try:
            with p.oneshot():
                r1 = p.memory_info().rss
                if how == "exception":
                    raise Boom()
        except Boom:
            pass
        k.files["/proc/77/statm"] = b"100 " + k.num(a[1]) + b" 25 10 0 30 0\n"
        r2 = p.memory_info().rss
    ctx.prove(ctx.eq(r1, a[0] * 4096), "memory_info-pages-times-pagesize", detail="inside the block")
    ctx.prove(ctx.eq(r2, a[1] * 4096), "memory_info-pages-times-pagesize", detail=f"after the block (left {how}): the record changed")


@harness("C13.percent", quick=[dict(kind="valid", L=0), dict(kind="other", L=3), dict(kind="witness", L=0)], thorough=[dict(kind="valid", L=0), dict(kind="witness", L=0)] + [dict(kind="other", L=L) for L in (0, 1, 3, 4, 6)])
def percent(ctx, kind, L):
    k = simk.Kernel(ctx)
    simk.system_files(k)
    simk.full_process(k, 77)
    maps, S = build(ctx, k, 1, "present")
    statm = [ctx.int(f"statm{j}", 0, 2**52) for j in range(7)]
    k.files["/proc/77/statm"] = " ".join(k.num(x, True) for x in statm) + "\n"
    TOTAL_KB = 16 * 1024 * 1024
    k.files["/proc/meminfo"] = f"MemTotal: {TOTAL_KB} kB\nMemFree: 1 kB\nMemAvailable: 1 kB\nBuffers: 0 kB\nCached: 0 kB\nShmem: 0 kB\nActive: 0 kB\nInactive: 0 kB\n"
    if kind == "valid":
        memtype = ctx.choice("memtype", VALID)
    elif kind == "witness":      # concrete names that are not fields but ARE attributes of the named tuples (count, index, _fields ...)
        memtype = ctx.choice("bad_name", BAD_NAMES)
    else:
        memtype = seq.fresh(ctx, "mt", L, "str", lo=32, hi=126)
        for v in VALID:
            if len(v) == L:
                if ctx.symbolic:
                    ctx.assume(sym.SymBool(z3.Not(seq.SymSeq.of(memtype).eq_term(v))))
                else:
                    ctx.assume(memtype != v)
    log0 = None
    with k.installed():
        p = psutil.Process(77)
        log0 = k.naccess_total
        try:
            r, exc = p.memory_percent(memtype), None
        except ValueError as e:
            r, exc = None, e
    if kind in ("other", "witness"):
        ctx.prove(exc is not None and k.naccess_total == log0, "memory_percent-invalid-ValueError")
        return
    ctx.observe("memory_percent", r)
    vms, rss, shared, text, lib, data, dirty = [x * PG for x in statm]
    want = dict(rss=rss, vms=vms, shared=shared, text=text, lib=lib, data=data, dirty=dirty,
                uss=(S("Private_Clean") + S("Private_Dirty") + S("Private_Hugetlb")) * 1024, pss=S("Pss") * 1024, swap=S("Swap") * 1024)[memtype]
    ctx.prove(exc is None and ctx.eq(r, ctx.div(want * 100, TOTAL_KB * 1024)), "memory_percent-formula")
    # the total can change while the program runs (memory hot-add, balloon driver, a container limit): the next call divides by the new one
    with k.installed():
        p = psutil.Process(77)
        p.memory_percent(memtype)
        k.files["/proc/meminfo"] = k.files["/proc/meminfo"].replace(f"MemTotal: {TOTAL_KB} kB", f"MemTotal: {2 * TOTAL_KB} kB")
        psutil.virtual_memory()
        r2 = p.memory_percent(memtype)
    ctx.prove(ctx.eq(r2, ctx.div(want * 100, 2 * TOTAL_KB * 1024)), "memory_percent-formula", detail="after MemTotal doubled")
