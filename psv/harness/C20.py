"""C20 — Every platform layer keeps the same error contract and record layout.

Real code executed: psutil/_psbsd.py (as FreeBSD, OpenBSD, NetBSD), _psosx.py, _pssunos.py, _psaix.py, _pswindows.py, each imported from
/repo under an alias package with sys.platform/os.name patched during the import only, over programmable stub native modules; plus
the aliased psutil/__init__.py front end (net_if_addrs post-processing).
"""
import errno
import os
import re

import psutil as _real_psutil          # noqa: F401  (sys.modules['psutil'] is what get_procfs_path() looks up)

from psv import plat
from psv.run import harness
from psv.sym import HarnessError

REPO = plat.REPO
ERRNOS = ["ESRCH", "ENOENT", "EPERM", "EACCES", "EIO", "EINVAL"]
WINERRS = [None, "ERROR_ACCESS_DENIED", "ERROR_PRIVILEGE_NOT_HELD", "ERROR_INVALID_PARAMETER"]

PLATFORMS = {
    "freebsd": dict(alias="psv_fbsd", platform="freebsd13", natives=("_psutil_bsd", "_psutil_posix"), osname="posix", family="bsd"),
    "openbsd": dict(alias="psv_obsd", platform="openbsd7", natives=("_psutil_bsd", "_psutil_posix"), osname="posix", family="bsd"),
    "netbsd": dict(alias="psv_nbsd", platform="netbsd9", natives=("_psutil_bsd", "_psutil_posix"), osname="posix", family="bsd"),
    "macos": dict(alias="psv_osx", platform="darwin", natives=("_psutil_osx", "_psutil_posix"), osname="posix", family="osx"),
    "sunos": dict(alias="psv_sunos", platform="sunos5", natives=("_psutil_sunos", "_psutil_posix"), osname="posix", family="procfs"),
    "aix": dict(alias="psv_aix", platform="aix7", natives=("_psutil_aix", "_psutil_posix"), osname="posix", family="procfs"),
    "windows": dict(alias="psv_win", platform="win32", natives=("_psutil_windows",), osname="nt", family="win"),
}
ARGS = {"nice_set": (0,), "rlimit": (1,), "net_connections": ("inet",), "cpu_affinity_set": ([0],), "ionice_set": (2, 0), "send_signal": (15,)}
SKIP = {"wait", "oneshot_enter", "oneshot_exit", "nt_mmap_ext", "nt_mmap_grouped", "kill", "suspend", "resume"}
SKIP_ON = {"aix": {"open_files"}, "openbsd": {"exe"}}       # subprocess / shutil.which based
# methods that document a fallback when the failing native call is refused / the link cannot be resolved (returning normally is right)
RETURN_OK = {("aix", "cwd", "ENOENT"), ("sunos", "cwd", "ENOENT"), ("netbsd", "cmdline", "EINVAL"),
             # Solaris: uids()/gids() fall back to the basic-info record when the credentials file is refused (documented in the source; C20.procfs_slots checks the values)
             ("sunos", "uids", "EPERM"), ("sunos", "uids", "EACCES"), ("sunos", "gids", "EPERM"), ("sunos", "gids", "EACCES")}
RETURN_OK_ANY = set()
WIN_FALLBACKS = {"memory_info", "memory_full_info", "cpu_times", "create_time", "io_counters", "num_handles", "exe", "name", "username"}
# documented platform-specific translations (the comments in the source explain them): outcome sets accepted as they are
SPECIAL = {("netbsd", "cmdline", "EINVAL"): "NetBSD returns EINVAL for zombies and for undecodable command lines: ZombieProcess / NoSuchProcess / []"}

META = dict(
    assumptions=[
        "native layer = programmable stubs: exactly one native call (the first one the method makes) fails with the chosen errno / Windows error code; the probes made by the error translation afterwards (process status, pid listing) answer according to the symbolic zombie/listed flags",
        "ENOENT counts as 'no such process' on the procfs-based layers (Solaris, AIX), whose translation documents it; and for an access to the process's own procfs entry on any layer (NetBSD's exe link); ENOENT from a native (sysctl-style) call of the BSD/macOS/Windows layers may either pass unchanged or be reported as NoSuchProcess (the statement does not say)",
        "record layout: the slot order of the native one-shot record is read from the comments of the C source's Py_BuildValue call of the current tree",
    ],
    stubs=["_psutil_bsd/_psutil_osx/_psutil_sunos/_psutil_aix/_psutil_windows/_psutil_posix replaced by stub modules with distinct integer constants", "os.readlink/open of the procfs-based layers fail like the native call"],
    bounds=dict(quick=dict(platforms=list(PLATFORMS), methods="every public method of each platform's Process class that needs no live subprocess", errno=ERRNOS, windows_codes=WINERRS, failures="one (the first native call)", pids=[0, 5]),
                thorough=dict(platforms=list(PLATFORMS), methods="as quick", errno=ERRNOS, failures="one, at any of the first 3 native calls", pids=[0, 5])),
    outside=["subprocess-based methods (pfiles/procfiles) and Windows services", "the clause about exposed function/constant names (a static comparison of two lists, not a solver question)", "more than one native failure per call"],
    labels=["no-such-process->NSP/Zombie", "permission->AD", "other-errors-unchanged", "pid0-AD", "bsd-record-slots", "osx-record-slots", "windows-record-slots", "windows-broadcast", "mac-padding", "connection-record-slots", "cached-name-in-exception"],
)


def _pre(mods, lab):
    lab.answers.update(cpu_times=lambda: (1.0, 2.0, 3.0, 4.0, 5.0), per_cpu_times=lambda: [(1.0, 2.0, 3.0, 4.0, 5.0)], pids=lambda: [0, 5], cpu_count_logical=lambda: 2,
                       boot_time=lambda: 1000.0, getpagesize=lambda: 4096)


def get(name):
    d = PLATFORMS[name]
    pkg, mods, lab = plat.load(d["alias"], d["platform"], d["natives"], d["osname"], _pre)
    plat.reset(d["alias"])
    return pkg, pkg._psplatform, mods, lab, d["family"]


def methods_of(PL, plat_=None):
    out = []
    for m in sorted(x for x in dir(PL.Process) if not x.startswith("_")):
        if m in SKIP or m in SKIP_ON.get(plat_, ()) or not callable(getattr(PL.Process, m)):
            continue
        out.append(m)
    return out


class _OsFail:
    """os stand-in for the procfs-based layers: readlink/stat/listdir are 'native' accesses too"""

    def __init__(self, real, lab, modname):
        self._real, self._lab, self._mod = real, lab, modname
        self.path = real.path

    def __getattr__(self, n):
        v = getattr(self._real, n)
        if n in ("readlink", "stat", "listdir", "lstat"):
            return lambda *a, **kw: self._lab.call(self._mod, "os." + n, a, kw)
        return v


def setup_probes(PL, lab, family, zombie, listed, ctx=None):
    if family == "bsd":
        n = len(PL.kinfo_proc_map)
        rec = [0] * n
        # the raw status the kernel gives an unreaped process differs between the BSDs (OpenBSD: SDEAD; SZOMB is unused there, says the
        # layer's own table): every raw value the layer's table maps to "zombie" is a zombie
        zraws = sorted(raw for raw, v_ in PL.PROC_STATUSES.items() if v_ == "zombie")
        zraw = (ctx.choice("zombie_raw_status", zraws) if ctx is not None and len(zraws) > 1 else zraws[0]) if zombie else None
        rec[PL.kinfo_proc_map["status"]] = zraw if zombie else PL.cext.SRUN
        rec[PL.kinfo_proc_map["name"]] = "nm"
        lab.answers["proc_oneshot_info"] = lambda pid: tuple(rec)
        lab.answers["pids"] = lambda: [0, 5] if listed else [5]
        lab.answers["proc_name"] = lambda pid: "nm"
    elif family == "osx":
        n = len(PL.kinfo_proc_map)
        rec = [0] * n
        rec[PL.kinfo_proc_map["status"]] = PL.cext.SZOMB if zombie else PL.cext.SRUN
        rec[PL.kinfo_proc_map["name"]] = "nm"
        lab.answers["proc_kinfo_oneshot"] = lambda pid: tuple(rec)
        lab.answers["pids"] = lambda: [0, 5] if listed else [5]
    elif family == "procfs":
        PL.pid_exists = lambda pid: listed
        PL.pids = lambda: [0, 5] if listed else [5]
    lab.answers.setdefault("pid_exists", lambda pid: listed)


@harness("C20.errors", quick=[dict(plat_=p, pid=pid, fail_at=0) for p in PLATFORMS for pid in (5, 0)],
         thorough=[dict(plat_=p, pid=pid, fail_at=k) for p in PLATFORMS for pid in (5, 0) for k in (0, 1, 2)])
def errors(ctx, plat_, pid, fail_at):
    pkg, PL, mods, lab, family = get(plat_)
    meths = methods_of(PL, plat_)
    m = ctx.choice("method", meths)
    en = ctx.choice("errno", ERRNOS)
    e = getattr(errno, en)
    zombie = ctx.flag("zombie") if family != "win" else False
    # a process that is not listed any more can only fail with "no such process/file"; every other error implies it exists
    may_be_unlisted = en in ("ESRCH", "ENOENT") and (family == "procfs" or (pid == 0 and plat_ == "freebsd"))
    listed = ctx.flag("listed") if may_be_unlisted else True
    wname = ctx.choice("winerror", WINERRS) if family == "win" else None
    winerr = None if wname is None else getattr(PL.cext, wname)
    lab.windows = family == "win"
    saved_os = None
    setup_probes(PL, lab, family, zombie, listed, ctx)
    if hasattr(PL, "os"):
        saved_os = PL.os
        PL.os = _OsFail(saved_os, lab, "os")
        lab.answers.update({"os.readlink": lambda *a: "/x", "os.stat": lambda *a: os.stat("/"), "os.listdir": lambda *a: [], "os.lstat": lambda *a: os.stat("/")})
    try:
        p = PL.Process(pid)
        p._name = "cached"
        lab.arm(fail_at=fail_at, fail_errno=e, winerror=winerr)
        try:
            getattr(p, m)(*ARGS.get(m, ()))
            exc = None
        except HarnessError as he:
            if lab.ncalls > fail_at or "unstubbed native call" in str(he):
                # the method went on past the probes into natives this lab does not answer, or (fail_at >= 1) needs an answer the lab
                # does not have before it reaches the call that is to fail: outside the bound
                ctx.reach("returned-or-needs-more-stubs")
                return
            raise
        except Exception as x:  # noqa: BLE001
            exc = x
    finally:
        calls, call_args = list(lab.calls), list(lab.call_args)
        lab.arm()
        if saved_os is not None:
            PL.os = saved_os
    info = f"{plat_}.{m}(pid={pid}) errno={en} winerror={wname} zombie={zombie} listed={listed} native-calls={calls[:3]} -> {type(exc).__name__ if exc is not None else 'returned normally'}: {exc}"
    if exc is None:
        # the method returned although a native call failed: accepted only for the fallbacks the sources document
        if len(calls) > fail_at:
            a0_ = call_args[fail_at][0] if call_args[fail_at] else None
            per_ = (a0_ == pid and not isinstance(a0_, bool)) if isinstance(a0_, int) else (isinstance(a0_, str) and f"/{pid}" in a0_)
            perm_ = en in ("EPERM", "EACCES") or wname in ("ERROR_ACCESS_DENIED", "ERROR_PRIVILEGE_NOT_HELD")
            documented = (plat_, m, en) in RETURN_OK or (family == "win" and perm_ and m in WIN_FALLBACKS) or (plat_, m) in RETURN_OK_ANY
            if per_:
                ctx.prove(documented, "failure-not-swallowed", detail=info)
                return
        ctx.reach("returned")              # no per-process native call failed
        return
    if len(calls) <= fail_at:
        ctx.reach("no-native-failure")     # the exception comes from the method's own guard (e.g. the PID 0 guards), not from an OS failure
        return
    a0 = call_args[fail_at][0] if call_args[fail_at] else None
    per_process = a0 == pid and not isinstance(a0, bool) if isinstance(a0, int) else (isinstance(a0, str) and f"/{pid}" in a0)
    if not per_process:
        ctx.reach("system-wide-native-failure")    # e.g. ppid_map(), pids(): not a failure about this process; outside the statement
        return
    if (plat_, m, en) in SPECIAL:
        ctx.prove(isinstance(exc, (pkg.ZombieProcess, pkg.NoSuchProcess)) and exc.pid == pid, "documented-special-case", detail=info)
        return
    is_psutil = isinstance(exc, pkg.Error)
    perm = e in (errno.EPERM, errno.EACCES) or wname in ("ERROR_ACCESS_DENIED", "ERROR_PRIVILEGE_NOT_HELD")
    # ENOENT from an access to the process's own procfs entry (os.readlink('/proc/<pid>/exe') on NetBSD) is the way a vanished
    # process shows there -- the layer's own procfs wrapper documents it -- so it counts as 'no such process' on every layer
    via_procfs = calls[fail_at].startswith("os.")
    nsp = e == errno.ESRCH or (e == errno.ENOENT and (family == "procfs" or via_procfs))
    name_ok = exc.name == "cached" if is_psutil and not (plat_ == "sunos" and pid == 0) else True
    if perm:
        ctx.prove(type(exc) is pkg.AccessDenied and exc.pid == pid and name_ok, "permission->AD", detail=info)
    elif nsp:
        if family in ("bsd", "osx"):
            want = pkg.ZombieProcess if zombie else pkg.NoSuchProcess
        elif family == "procfs":
            want = pkg.ZombieProcess if listed else pkg.NoSuchProcess
        else:
            want = pkg.NoSuchProcess
        ctx.prove(type(exc) is want and exc.pid == pid and name_ok, "no-such-process->NSP/Zombie", detail=info)
    elif pid == 0 and listed and plat_ in ("freebsd", "openbsd", "netbsd", "sunos"):
        ctx.prove(type(exc) is pkg.AccessDenied and exc.pid == 0, "pid0-AD", detail=info)
    elif e == errno.ENOENT and family in ("bsd", "osx", "win") and is_psutil:
        ctx.prove(isinstance(exc, pkg.NoSuchProcess) and exc.pid == pid, "no-such-process->NSP/Zombie", detail=info)
    else:
        ctx.prove(isinstance(exc, OSError) and exc.errno == e and not is_psutil, "other-errors-unchanged", detail=info)


@harness("C20.errors_oneshot", quick=[dict(plat_=p) for p in ("macos", "freebsd")], thorough=[dict(plat_=p) for p in ("macos", "freebsd", "openbsd", "netbsd")])
def errors_oneshot(ctx, plat_):
    """the same error contract inside a oneshot() block: the block first caches the process record (status() is asked while the
    process is in one state), then the process changes state (exits and stays a zombie / a zombie is reaped), then a method's
    native call fails with ESRCH: ZombieProcess or NoSuchProcess is decided by what the process is NOW, not by the cached record"""
    pkg, PL, mods, lab, family = get(plat_)
    pid = 5
    meths = [m for m in methods_of(PL, plat_) if m not in ("status", "oneshot_enter", "oneshot_exit")]
    m = ctx.choice("method", meths)
    z0, z1 = ctx.flag("zombie_when_cached"), ctx.flag("zombie_now")
    lab.windows = False
    cur = {"z": z0}
    n = len(PL.kinfo_proc_map)

    def rec(pid_):
        r = [0] * n
        r[PL.kinfo_proc_map["status"]] = PL.cext.SZOMB if cur["z"] else PL.cext.SRUN
        r[PL.kinfo_proc_map["name"]] = "nm"
        return tuple(r)

    lab.answers["proc_oneshot_info" if family == "bsd" else "proc_kinfo_oneshot"] = rec
    lab.answers["pids"] = lambda: [0, 5]
    lab.answers["proc_name"] = lambda pid_: "nm"
    lab.answers.setdefault("pid_exists", lambda pid_: True)
    try:
        p = PL.Process(pid)
        p._name = "cached"
        lab.arm()
        p.oneshot_enter()
        try:
            p.status()                       # fills the block's cache while the process is in state z0
            cur["z"] = z1
            lab.arm(fail_at=0, fail_errno=errno.ESRCH, winerror=None)
            try:
                getattr(p, m)(*ARGS.get(m, ()))
                exc = None
            except HarnessError:
                if lab.ncalls > 0:
                    ctx.reach("returned-or-needs-more-stubs")
                    return
                raise
            except Exception as x:  # noqa: BLE001
                exc = x
        finally:
            calls, call_args = list(lab.calls), list(lab.call_args)
            lab.arm()
            p.oneshot_exit()
    finally:
        lab.arm()
    info = f"{plat_}.{m}() inside oneshot(): cached while zombie={z0}, now zombie={z1}, native-calls={calls[:3]} -> {type(exc).__name__ if exc is not None else 'returned'}: {exc}"
    if exc is None or not calls:
        ctx.reach("served-from-the-cache")
        return
    a0 = call_args[0][0] if call_args[0] else None
    if not (isinstance(a0, int) and not isinstance(a0, bool) and a0 == pid):
        ctx.reach("system-wide-native-failure")
        return
    if calls[0] in ("proc_oneshot_info", "proc_kinfo_oneshot"):
        # the method made no native call of its own before the error translation probed the process status (NetBSD exe() reads a
        # procfs link): the injected failure hit the probe itself, which says nothing about the contract
        ctx.reach("failure-hit-the-status-probe")
        return
    if (plat_, m, "ESRCH") in SPECIAL:
        ctx.prove(isinstance(exc, (pkg.ZombieProcess, pkg.NoSuchProcess)) and exc.pid == pid, "documented-special-case", detail=info)
        return
    want = pkg.ZombieProcess if z1 else pkg.NoSuchProcess
    ctx.prove(type(exc) is want and exc.pid == pid and exc.name == "cached", "no-such-process->NSP/Zombie[inside-oneshot]", detail=info)


# ---- record layout ---------------------------------------------------------------------------------------------------------

def c_slot_comments(path, func, branch=None):
    """slot names of the tuple a C function builds, read from the `// (type) name` comments of its Py_BuildValue call"""
    src = open(os.path.join(REPO, "psutil", path)).read()
    i = src.index(func)
    j = src.index("Py_BuildValue", i)
    body = src[j:src.index(");", j)]
    if branch is not None:
        a = body.index(branch[0])
        b = body.index(branch[1], a) if branch[1] else len(body)
        body = body[a:b]
    names = re.findall(r"//\s*\([^)]*\)\s*([^\n]+)", body)
    return [n.strip() for n in names]


BSD_SEM = {  # semantic name -> the C comment that documents the slot
    "ppid": "ppid", "status": "status", "real_uid": "real uid", "effective_uid": "effective uid", "saved_uid": "saved uid", "real_gid": "real gid", "effective_gid": "effective gid",
    "saved_gid": "saved gid", "ttynr": "tty nr", "create_time": "create time", "ctx_vol": "ctx switches (voluntary)", "ctx_unvol": "ctx switches (unvoluntary)", "read_io": "read io count",
    "write_io": "write io count", "user_time": "user time", "sys_time": "sys time", "ch_user": ("children utime", "ch utime"), "ch_sys": ("children stime", "ch stime"), "rss": "rss", "vms": "vms", "memtext": "mem text",
    "memdata": "mem data", "memstack": "mem stack", "cpunum": "the CPU we are on",
}


@harness("C20.bsd_slots", quick=[dict(plat_="freebsd")], thorough=[dict(plat_=p) for p in ("freebsd", "openbsd", "netbsd")])
def bsd_slots(ctx, plat_):
    pkg, PL, mods, lab, family = get(plat_)
    branch = ("#ifdef PSUTIL_FREEBSD", "#elif") if plat_ == "freebsd" else ("#elif defined(PSUTIL_OPENBSD)", "#endif")
    comments = c_slot_comments("arch/bsd/proc.c", "psutil_proc_oneshot_info", branch)
    if len(comments) < 20:
        raise HarnessError(f"could not read the slot comments of psutil_proc_oneshot_info: {comments}")
    slot = {}
    for sem, text in BSD_SEM.items():
        alts = [t for t in ((text,) if isinstance(text, str) else text) if t in comments]      # the OpenBSD/NetBSD branch abbreviates two comments
        if not alts:
            raise HarnessError(f"C comment {text!r} not found in {comments}")
        slot[sem] = comments.index(alts[0])
    n = len(comments) + 1                       # + the process name (py_name)
    vals = [ctx.int(f"s{i}", 1, 2**40) for i in range(n)]
    rec = list(vals)
    rec[n - 1] = "procname"
    status_choices = [PL.cext.SRUN, PL.cext.SSLEEP, PL.cext.SZOMB, PL.cext.SSTOP]
    st = ctx.choice("status", status_choices)
    rec[slot["status"]] = st
    lab.answers["proc_oneshot_info"] = lambda pid: tuple(rec)
    lab.arm()
    p = PL.Process(5)
    V = lambda sem: vals[slot[sem]]     # noqa: E731
    ok = []
    ok.append(ctx.eq(p.ppid(), V("ppid")))
    u, g = p.uids(), p.gids()
    ok += [ctx.eq(u.real, V("real_uid")), ctx.eq(u.effective, V("effective_uid")), ctx.eq(u.saved, V("saved_uid"))]
    ok += [ctx.eq(g.real, V("real_gid")), ctx.eq(g.effective, V("effective_gid")), ctx.eq(g.saved, V("saved_gid"))]
    ct = p.cpu_times()
    ok += [ctx.eq(ct.user, V("user_time")), ctx.eq(ct.system, V("sys_time")), ctx.eq(ct.children_user, V("ch_user")), ctx.eq(ct.children_system, V("ch_sys"))]
    ok.append(ctx.eq(p.create_time(), V("create_time")))
    mi = p.memory_info()
    ok += [ctx.eq(mi.rss, V("rss")), ctx.eq(mi.vms, V("vms")), ctx.eq(mi.text, V("memtext")), ctx.eq(mi.data, V("memdata")), ctx.eq(mi.stack, V("memstack"))]
    cs = p.num_ctx_switches()
    ok += [ctx.eq(cs.voluntary, V("ctx_vol")), ctx.eq(cs.involuntary, V("ctx_unvol"))]
    io = p.io_counters()
    ok += [ctx.eq(io.read_count, V("read_io")), ctx.eq(io.write_count, V("write_io"))]
    if plat_ == "freebsd":
        ok.append(ctx.eq(p.cpu_num(), V("cpunum")))
    ok.append(p.name() == "procname")
    ok.append(p.status() == PL.PROC_STATUSES[st])
    ctx.prove(ctx.all(ok), "bsd-record-slots", detail=f"{plat_}: slots {slot}")


OSX_KINFO = {"ppid": "ppid", "real_uid": "real uid", "effective_uid": "effective uid", "saved_uid": "saved uid", "real_gid": "real gid", "effective_gid": "effective gid", "saved_gid": "saved gid",
             "ttynr": "tty nr", "create_time": "create time", "status": "status"}
OSX_TASK = {"user": "cpu user time", "system": "cpu sys time", "rss": "rss", "vms": "vms", "pfaults": "number of page faults (pages)", "pageins": "number of actual pageins (pages)",
            "threads": "num threads", "ctx": "voluntary ctx switches"}


@harness("C20.osx_slots")
def osx_slots(ctx):
    pkg, PL, mods, lab, family = get("macos")
    kc = c_slot_comments("arch/osx/proc.c", "psutil_proc_kinfo_oneshot")
    tc = c_slot_comments("arch/osx/proc.c", "psutil_proc_pidtaskinfo_oneshot")
    ks, ts = {}, {}
    for sem, text in OSX_KINFO.items():
        if text not in kc:
            raise HarnessError(f"C comment {text!r} not found in {kc}")
        ks[sem] = kc.index(text)
    for sem, text in OSX_TASK.items():
        hit = [i for i, c in enumerate(tc) if c.startswith(text)]
        if not hit:
            raise HarnessError(f"C comment {text!r} not found in {tc}")
        ts[sem] = hit[0]
    name_slot = kc.index("name") if "name" in kc else len(kc)
    kin = [ctx.int(f"k{i}", 1, 2**40) for i in range(max(len(kc), name_slot + 1))]
    tsk = [ctx.int(f"t{i}", 1, 2**40) for i in range(len(tc))]
    krec = list(kin)
    krec[name_slot] = "procname"
    krec[ks["status"]] = PL.cext.SRUN
    lab.answers["proc_kinfo_oneshot"] = lambda pid: tuple(krec)
    lab.answers["proc_pidtaskinfo_oneshot"] = lambda pid: tuple(tsk)
    lab.arm()
    p = PL.Process(5)
    K = lambda s: kin[ks[s]]     # noqa: E731
    T = lambda s: tsk[ts[s]]     # noqa: E731
    u, g, ct, mi, cs = p.uids(), p.gids(), p.cpu_times(), p.memory_info(), p.num_ctx_switches()
    ok = [ctx.eq(p.ppid(), K("ppid")), ctx.eq(u.real, K("real_uid")), ctx.eq(u.effective, K("effective_uid")), ctx.eq(u.saved, K("saved_uid")),
          ctx.eq(g.real, K("real_gid")), ctx.eq(g.effective, K("effective_gid")), ctx.eq(g.saved, K("saved_gid")), ctx.eq(p.create_time(), K("create_time")),
          ctx.eq(ct.user, T("user")), ctx.eq(ct.system, T("system")), ct.children_user == 0.0, ct.children_system == 0.0,
          ctx.eq(mi.rss, T("rss")), ctx.eq(mi.vms, T("vms")), ctx.eq(mi.pfaults, T("pfaults")), ctx.eq(mi.pageins, T("pageins")),
          ctx.eq(p.num_threads(), T("threads")), ctx.eq(cs.voluntary, T("ctx")), p.name() == "procname"]
    ctx.prove(ctx.all(ok), "osx-record-slots", detail=f"kinfo slots {ks} task slots {ts}")


WIN_SEM = {"num_handles": "num handles", "ctx_switches": "num ctx switches", "user_time": "cpu user time", "kernel_time": "cpu kernel time", "create_time": "create time", "num_threads": "num threads",
           "io_rcount": "io rcount", "io_wcount": "io wcount", "io_rbytes": "io rbytes", "io_wbytes": "io wbytes", "io_count_others": "io others count", "io_bytes_others": "io others bytes",
           "num_page_faults": "num page faults", "peak_wset": "peak wset", "wset": "wset", "peak_paged_pool": "peak paged pool", "paged_pool": "paged pool", "peak_nonpaged_pool": "peak non paged pool",
           "nonpaged_pool": "non paged pool", "pagefile": "pagefile", "peak_pagefile": "peak pagefile", "private": "private"}


@harness("C20.win_slots", quick=[dict(denied=d) for d in (False, True)])
def win_slots(ctx, denied):
    """Windows: every field of the named tuples comes from the slot of the native record that carries that name, on the direct
    path and on the documented slower path taken when the direct native call is refused"""
    pkg, PL, mods, lab, family = get("windows")
    src = open(os.path.join(REPO, "psutil", "arch/windows/proc_info.c")).read()
    i = src.index("psutil_proc_info(")
    j = src.rindex("Py_BuildValue", i, src.index("private", src.index("num handles", i)))
    comments = [c.strip() for c in re.findall(r"//\s*([a-z][^\n]*)", src[j:src.index(");", j)]) if c.strip() not in ("IO counters", "memory")]
    slot = {}
    for sem, text in WIN_SEM.items():
        if text not in comments:
            raise HarnessError(f"C comment {text!r} not found in {comments}")
        slot[sem] = comments.index(text)
    vals = [ctx.int(f"w{i}", 1, 2**40) for i in range(len(comments))]
    lab.windows = True
    lab.answers["proc_info"] = lambda pid: tuple(vals)
    direct = dict(mem=[ctx.int(f"m{i}", 1, 2**40) for i in range(10)], times=[ctx.int(f"t{i}", 1, 2**40) for i in range(3)], io=[ctx.int(f"io{i}", 1, 2**40) for i in range(6)], nh=ctx.int("nh", 1, 2**20))

    def refuse(*a):
        e = PermissionError(errno.EACCES, "denied")
        e.winerror = PL.cext.ERROR_ACCESS_DENIED
        raise e

    lab.answers["proc_memory_info"] = refuse if denied else (lambda pid: tuple(direct["mem"]))
    lab.answers["proc_times"] = refuse if denied else (lambda pid: tuple(direct["times"]))
    lab.answers["proc_io_counters"] = refuse if denied else (lambda pid: tuple(direct["io"]))
    lab.answers["proc_num_handles"] = refuse if denied else (lambda pid: direct["nh"])
    lab.arm()
    p = PL.Process(5)
    V = lambda sem: vals[slot[sem]]     # noqa: E731
    mi, ct, io = p.memory_info(), p.cpu_times(), p.io_counters()
    ok = [ctx.eq(p.num_threads(), V("num_threads")), ctx.eq(p.num_ctx_switches().voluntary, V("ctx_switches"))]
    MEM = ["num_page_faults", "peak_wset", "wset", "peak_paged_pool", "paged_pool", "peak_nonpaged_pool", "nonpaged_pool", "pagefile", "peak_pagefile", "private"]
    if denied:
        ok += [ctx.eq(getattr(mi, f), V(f)) for f in MEM] + [ctx.eq(mi.rss, V("wset")), ctx.eq(mi.vms, V("pagefile"))]
        ok += [ctx.eq(ct.user, V("user_time")), ctx.eq(ct.system, V("kernel_time")), ctx.eq(p.create_time(), V("create_time")), ctx.eq(p.num_handles(), V("num_handles"))]
        ok += [ctx.eq(io.read_count, V("io_rcount")), ctx.eq(io.write_count, V("io_wcount")), ctx.eq(io.read_bytes, V("io_rbytes")), ctx.eq(io.write_bytes, V("io_wbytes")),
               ctx.eq(io.other_count, V("io_count_others")), ctx.eq(io.other_bytes, V("io_bytes_others"))]
    else:
        ok += [ctx.eq(getattr(mi, f), direct["mem"][i]) for i, f in enumerate(MEM)] + [ctx.eq(mi.rss, direct["mem"][2]), ctx.eq(mi.vms, direct["mem"][7])]
        ok += [ctx.eq(ct.user, direct["times"][0]), ctx.eq(ct.system, direct["times"][1]), ctx.eq(p.create_time(), direct["times"][2]), ctx.eq(p.num_handles(), direct["nh"])]
        ok += [ctx.eq(a, b) for a, b in zip(io, direct["io"])]
    ctx.prove(ctx.all(ok), "windows-record-slots", detail=f"denied={denied} slots={slot}")


PROCFS_SEM = {"ppid": "parent pid", "rss": "rss", "vms": "vms", "create_time": "create time", "nice": "nice", "num_threads": "no. of threads", "status": "status code", "ttynr": "tty nr",
              "uid": "real user id", "euid": "effective user id", "gid": "real group id", "egid": "effective group id"}


@harness("C20.procfs_slots", quick=[dict(plat_=p_, cred_denied=d) for p_ in ("sunos", "aix") for d in (False, True) if not (p_ == "aix" and d)])
def procfs_slots(ctx, plat_, cred_denied):
    """Solaris / AIX: fields of the basic-info and credential records reach the documented named tuples (type and field)"""
    pkg, PL, mods, lab, family = get(plat_)
    csrc = "_psutil_sunos.c" if plat_ == "sunos" else "_psutil_aix.c"
    src = open(os.path.join(REPO, "psutil", csrc)).read()
    i = src.index("psutil_proc_basic_info(")
    j = src.index("Py_BuildValue", i)
    comments = [c.strip() for c in re.findall(r"//\s*([^\n]+)", src[j:src.index(");", j)])]
    slot = {}
    for sem, text in PROCFS_SEM.items():
        if text in comments:
            slot[sem] = comments.index(text)
        elif plat_ == "sunos" or sem in ("ppid", "rss", "vms", "create_time", "nice", "num_threads", "status", "ttynr"):
            raise HarnessError(f"C comment {text!r} not found in {comments}")
    vals = [ctx.int(f"b{i}", 1, 2**40) for i in range(len(comments))]
    cred = [ctx.int(f"cr{i}", 1, 2**31) for i in range(6)]
    rec = list(vals)
    states = sorted(v for k_, v in vars(PL.cext).items() if k_.startswith("S") and isinstance(v, int) and v in PL.PROC_STATUSES)
    st = ctx.choice("status", states[:4])
    rec[slot["status"]] = st
    lab.answers["proc_basic_info"] = lambda pid, path: tuple(rec)

    def proc_cred(pid, path):
        if cred_denied:
            raise PermissionError(errno.EACCES, "denied")
        return tuple(cred)

    lab.answers["proc_cred"] = proc_cred
    lab.arm()
    p = PL.Process(5)
    V = lambda sem: vals[slot[sem]]     # noqa: E731
    u, g, mi = p.uids(), p.gids(), p.memory_info()
    ok = [ctx.eq(p.ppid(), V("ppid")), ctx.eq(mi.rss, V("rss") * 1024), ctx.eq(mi.vms, V("vms") * 1024), ctx.eq(p.create_time(), V("create_time")), ctx.eq(p.num_threads(), V("num_threads")),
          p.status() == PL.PROC_STATUSES[st], type(mi).__name__ == "pmem"]
    if plat_ == "sunos":
        ok.append(ctx.eq(p.nice_get(), V("nice")))
    if cred_denied:
        ok += [ctx.eq(u.real, V("uid")), ctx.eq(u.effective, V("euid")), u.saved is None, ctx.eq(g.real, V("gid")), ctx.eq(g.effective, V("egid")), g.saved is None]
    else:
        ok += [ctx.eq(u.real, cred[0]), ctx.eq(u.effective, cred[1]), ctx.eq(u.saved, cred[2]), ctx.eq(g.real, cred[3]), ctx.eq(g.effective, cred[4]), ctx.eq(g.saved, cred[5])]
    ctx.prove(ctx.all(ok), "procfs-record-slots", detail=f"{plat_}: slots {slot}")
    ctx.prove(type(u).__name__ == "puids" and type(g).__name__ == "pgids", "documented-tuple-types", detail=f"{plat_}: uids() -> {type(u).__name__}, gids() -> {type(g).__name__}")


@harness("C20.cached_name", quick=[dict(plat_=p_) for p_ in ("windows", "freebsd", "macos")])
def cached_name(ctx, plat_):
    """through the package front end (pkg.Process, not the platform class): once name() has answered, a later native failure of
    another method is reported with that name in the exception (and the pid)"""
    pkg, PL, mods, lab, family = get(plat_)
    lab.windows = family == "win"
    setup_probes(PL, lab, family, False, True, ctx)
    lab.answers.update(check_pid_range=lambda pid: None, proc_times=lambda pid: (1.0, 2.0, 3.0), proc_exe=lambda pid: "C:\\dir\\prog.exe", ppid_map=lambda: {5: 1})
    en = ctx.choice("errno", ["EACCES", "EPERM", "ESRCH"])
    wname = ctx.choice("winerror", [None, "ERROR_ACCESS_DENIED"]) if family == "win" else None
    lab.arm()
    pr = ctx.guard("cached-name-in-exception", pkg.Process, 5)
    nm = ctx.guard("cached-name-in-exception", pr.name)
    lab.arm(fail_at=0, fail_errno=getattr(errno, en), winerror=None if wname is None else getattr(PL.cext, wname))
    try:
        pr.nice()
        exc = None
    except pkg.Error as x:
        exc = x
    finally:
        calls = list(lab.calls)
        lab.arm()
    info = f"{plat_}: name() -> {nm!r}; then nice() with the native call {calls[:1]} failing ({en}, {wname}) -> {exc!r}"
    ctx.prove(exc is not None and exc.pid == 5 and exc.name == nm and bool(nm), "cached-name-in-exception", detail=info)


# ---- connection records ----------------------------------------------------------------------------------------------------

@harness("C20.connections", quick=[dict(plat_=p_) for p_ in ("windows", "freebsd", "openbsd", "netbsd", "aix", "sunos")])
def connections(ctx, plat_):
    """net_connections(): every slot of the native record reaches the tuple -- fd, family, type, the two addresses, the status
    mapped through the layer's table, and in the system-wide listing the OWNER's pid whatever it is (0 = kernel / System Idle
    Process included); the per-process listing has the six-field tuple without pid"""
    import socket

    pkg, PL, mods, lab, family = get(plat_)
    owner = ctx.choice("owner", [0, 5, 4242])
    fam = ctx.choice("family", [socket.AF_INET, socket.AF_INET6])
    typ = ctx.choice("type", [socket.SOCK_STREAM, socket.SOCK_DGRAM])
    fd = ctx.choice("fd", [-1, 0, 9])
    st = ctx.choice("status", sorted(PL.TCP_STATUSES))
    connected = ctx.flag("connected")
    kind = ctx.choice("kind", ["inet", "all"] if plat_ != "sunos" else ["inet", "inet4" if fam == socket.AF_INET else "inet6"])      # Solaris 'all' adds pfiles(1) output: outside
    laddr = ("10.0.0.1", 80) if fam == socket.AF_INET else ("fe80::1", 80)
    raddr = (("10.0.0.2", 443) if fam == socket.AF_INET else ("fe80::2", 443)) if connected else ()
    rec = (fd, int(fam), int(typ), laddr, raddr, st, owner)
    setup_probes(PL, lab, family, False, True)
    lab.windows = family == "win"
    lab.answers["net_connections"] = lambda *a: [rec]
    lab.answers["proc_net_connections"] = lambda *a: [rec[:6]]
    if hasattr(PL, "os"):
        PL.os = _OsFail(PL.os, lab, "os")
        lab.answers.update({"os.stat": lambda *a: os.stat("/")})
    lab.arm()
    system = ctx.guard("connection-record-slots", PL.net_connections, kind)
    lab.arm()
    proc = PL.Process(5)
    proc._name = "cached"
    per = ctx.guard("connection-record-slots", proc.net_connections, kind)
    if typ == socket.SOCK_STREAM or plat_ == "sunos":
        status = PL.TCP_STATUSES[st]
    else:
        status = pkg.CONN_NONE
    A = pkg._common.addr
    want6 = (fd, socket.AddressFamily(fam), socket.SocketKind(typ), A(*laddr), A(*raddr) if raddr else (), status)
    info = f"{plat_}: native record {rec}"
    ctx.prove(len(system) == 1 and type(system[0]).__name__ == "sconn" and tuple(system[0]) == want6 + (owner,) and system[0].pid == owner,
              "connection-record-slots", detail=f"{info}; system-wide -> {system}")
    ctx.prove(len(per) == 1 and type(per[0]).__name__ == "pconn" and tuple(per[0]) == want6, "connection-record-slots", detail=f"{info}; per-process -> {per}")


# ---- front end post-processing --------------------------------------------------------------------------------------------

@harness("C20.frontend", quick=[dict(plat_=p) for p in ("windows", "freebsd", "macos")])
def frontend(ctx, plat_):
    """net_if_addrs(): the computed IPv4 broadcast address on Windows takes effect; MAC addresses are padded to 6 groups"""
    import socket

    pkg, PL, mods, lab, family = get(plat_)
    a = [ctx.choice(f"a{i}", [10, 172, 192, 255, 0, 1]) for i in range(2)] + [ctx.choice("a2", [0, 1, 200]), ctx.choice("a3", [5, 255])]
    mask_bits = ctx.choice("mask", [8, 16, 24, 30])
    ip = ".".join(map(str, a))
    maskint = (0xFFFFFFFF << (32 - mask_bits)) & 0xFFFFFFFF
    mask = ".".join(str((maskint >> s) & 0xFF) for s in (24, 16, 8, 0))
    msep = "-" if plat_ == "windows" else ":"
    mac = ctx.choice("mac", [msep.join(["00", "11", "22", "33", "44", "55"]), msep.join(["00", "11", "22"]), ""])
    raw = [("eth0", int(socket.AF_INET), ip, mask, None, None), ("eth0", -1 if plat_ == "windows" else 18, mac, None, None, None)]
    # further inet records after the first one: a netmask no broadcast can be computed from (non-contiguous, or an IPv6 mask in address
    # form) and one without a netmask: their broadcast stays None (it is not inherited from the record before)
    odd = ctx.choice("second_record", [None, ("eth1", int(socket.AF_INET), "172.16.5.9", "255.0.255.0"), ("eth1", int(socket.AF_INET6), "fe80::1", "ffff:ffff:ffff:ffff::"), ("eth1", int(socket.AF_INET), "172.16.5.9", None)])
    if odd is not None:
        raw.insert(1, odd + (None, None))
    if hasattr(PL, "net_if_addrs"):
        PL.net_if_addrs = lambda: list(raw)
    lab.answers["net_if_addrs"] = lambda: list(raw)
    lab.arm()
    got = ctx.guard("net_if_addrs-no-exception", pkg.net_if_addrs)
    ents = got.get("eth0", [])
    v4 = [e for e in ents if e.family == socket.AF_INET]
    ctx.prove(len(v4) == 1 and v4[0].address == ip and v4[0].netmask == mask, "frontend-addresses", detail=f"{ents}")
    if plat_ == "windows":
        ipint = sum(x << s for x, s in zip(a, (24, 16, 8, 0)))
        want = ".".join(str(((ipint | (~maskint & 0xFFFFFFFF)) >> s) & 0xFF) for s in (24, 16, 8, 0))
        ctx.prove(len(v4) == 1 and v4[0].broadcast == want, "windows-broadcast", detail=f"ip={ip} mask={mask} want broadcast {want} got {v4[0].broadcast if v4 else None}")
    if odd is not None:
        e1 = got.get("eth1", [])
        ctx.prove(len(e1) == 1 and e1[0].address == odd[2] and e1[0].netmask == odd[3] and e1[0].broadcast is None, "frontend-addresses", detail=f"second record {odd}: {e1}")
    link = [e for e in ents if e.family == pkg.AF_LINK]
    if mac:
        groups = mac.split(msep)
        wantmac = msep.join(groups + ["00"] * (6 - len(groups)))
        ctx.prove(len(link) == 1 and link[0].address == wantmac, "mac-padding", detail=f"{link} want {wantmac}")
