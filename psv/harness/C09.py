"""C09 — Disk/network counters: exact per-device values, totals never double count; disk_usage().

Real code executed: _pslinux.net_io_counters/disk_io_counters/is_storage_device, psutil.net_io_counters/disk_io_counters
(nowrap=False), _psposix.disk_usage, _common.usage_percent, psutil.disk_usage.
"""
import z3

from psv import seq, simk, sym
from psv.run import harness
from psv.simk import psutil

META = dict(
    assumptions=[
        "/proc/net/dev: two header lines, then `<name>: <16 counters>` per interface (net/core/net-procfs.c); interface names contain no whitespace",
        "/proc/diskstats layouts per Documentation/admin-guide/iostats.rst: 14/18/20 fields (2.6+ disks), 7 fields (2.6 partitions), 15 fields (2.4: major minor #blocks name + 11 stats)",
        "a device is a whole disk iff /sys/block/<name> exists (the answer is symbolic per device)",
        "statvfs returns arbitrary non-negative ints with f_bavail <= f_bfree <= f_blocks",
        "text->number boundary: digit placeholders, int shadowed in the psutil modules' globals",
    ],
    stubs=["open() of /proc/net/dev and /proc/diskstats", "os.access/os.path.exists on /sys/block/<name>", "os.statvfs"],
    bounds=dict(
        quick=dict(interfaces="0..2, name length 1 or 3 symbolic printable chars (incl. ':' '/')", disks="0..3 lines of layouts 14/18/20/7/15", counters="[0, 2^64)", frsize=[512, 4096]),
        thorough=dict(interfaces="0..3, name length 1..6", disks="0..4 lines, all layouts", counters="[0, 2^64)", frsize=[1, 512, 4096, 65536, 1048576]),
    ),
    outside=["the /sys/block fallback of disk_io_counters (os.walk) when /proc/diskstats is absent", "non-ASCII interface names"],
    labels=["per-nic-fields", "total-is-sum", "empty", "all-devices-listed", "fields-layout14", "fields-layout7", "total-over-whole-disks", "disk_usage-fields", "disk_usage-percent"],
)


def _same(a, b):
    """equality of two names (either may be symbolic) as a decided Python bool (forks)"""
    if isinstance(a, seq.SymSeq) or isinstance(b, seq.SymSeq):
        return bool(sym.SymBool(seq.SymSeq.of(a).eq_term(b)))
    return a == b


@harness("C09.net", quick=[dict(nif=n, namelen=L) for n, L in ((0, 1), (1, 1), (1, 3), (2, 1), (2, 3))] + [dict(nif=2, namelen=0, raw=[b"r\xe9seau0", b"eth0"]), dict(nif=1, namelen=0, raw=[b"\xff\xfe\x80"])],
         thorough=[dict(nif=n, namelen=L) for n in (0, 1, 2, 3, 4) for L in (1, 2, 4, 6, 8, 15) if (n or L == 1) and n * L <= 24])
def net(ctx, nif, namelen, raw=None):
    """raw: concrete interface names given as bytes (the kernel allows any byte but '/', ':' and white space in a name), decoded the
    way psutil decodes every other name it reads from /proc: file-system encoding with surrogateescape"""
    k = simk.Kernel(ctx)
    vals, names = [], []
    if raw is not None:
        from psv.simk import _common

        content = b"Inter-|   Receive  |  Transmit\n face |bytes packets|bytes packets\n"
        for i, rn in enumerate(raw):
            v = [ctx.int(f"c{i}_{j}", 0, 2**64 - 1) for j in range(16)]
            names.append(rn.decode(_common.ENCODING, _common.ENCODING_ERRS))
            vals.append(v)
            # the kernel prints `%6s:%8llu`: no blank after the colon once the first counter has 8+ digits
            content += b"  " + rn + (b":" if ctx.flag(f"tight{i}") else b": ") + b" ".join(k.num(x) for x in v) + b"\n"
        k.files["/proc/net/dev"] = content
        nif = len(raw)
        # the last interface is a port of a bond/bridge: it is still an interface the kernel lists, and counts in the total
        k.links["/sys/class/net/" + names[-1] + "/master"] = "../bond0"
        k.dirs["/sys/class/net/" + names[-1]] = ["master", "statistics"]
        k.dirs["/sys/class/net/bond0"] = ["statistics"]
    content = "Inter-|   Receive                                                |  Transmit\n face |bytes    packets errs drop fifo frame compressed multicast|bytes    packets errs drop fifo colls carrier compressed\n"
    for i in range(nif if raw is None else 0):
        nm = seq.fresh(ctx, f"nm{i}", namelen, "str", lo=33, hi=126)     # printable, no whitespace
        if ctx.symbolic:
            for prev in names:
                ctx.assume(sym.SymBool(z3.Not(seq.SymSeq.of(nm).eq_term(prev))))
        elif nm in names:
            ctx.assume(False)
        v = [ctx.int(f"c{i}_{j}", 0, 2**64 - 1) for j in range(16)]
        names.append(nm)
        vals.append(v)
        tight = ctx.flag(f"tight{i}")         # the kernel prints `%6s:%8llu`: no blank after the colon once the counter has 8+ digits
        content = content + "  " + nm + (":" if tight else ": ") + " ".join(k.num(x, text=True) for x in v) + "\n"
    if raw is None:
        k.files["/proc/net/dev"] = content
    with k.installed():
        per = psutil.net_io_counters(pernic=True, nowrap=False)
        tot = psutil.net_io_counters(pernic=False, nowrap=False)
    ctx.observe("net_io", (list(per.items()) if per else per, tot))
    if nif == 0:
        ctx.prove(per == {} and tot is None, "empty")
        return
    want = lambda v: dict(bytes_sent=v[8], bytes_recv=v[0], packets_sent=v[9], packets_recv=v[1], errin=v[2], errout=v[10], dropin=v[3], dropout=v[11])   # noqa: E731
    ctx.prove(len(per) == nif, "count")
    for i in range(nif):
        ent = None
        for kname in list(per):
            if _same(kname, names[i]):
                ent = per[kname]
                break
        ctx.prove(ent is not None, "name-preserved")
        if ent is None:
            return
        w = want(vals[i])
        ctx.prove(tuple(ent._fields) == tuple(w) and ctx.all([ctx.eq(getattr(ent, f), w[f]) for f in w]), "per-nic-fields")
    ctx.prove(tot is not None, "total-is-sum", detail="no total although interfaces are listed")
    if tot is None:
        return
    ctx.prove(ctx.all([ctx.eq(getattr(tot, f), ctx.sum([want(v)[f] for v in vals])) for f in tot._fields]), "total-is-sum")


def _from_stats(st):   # st = the 11+ stats after the name, iostats.rst order
    return dict(read_count=st[0], read_merged_count=st[1], read_bytes=st[2] * 512, read_time=st[3],
                write_count=st[4], write_merged_count=st[5], write_bytes=st[6] * 512, write_time=st[7], busy_time=st[9])


LAYOUTS_Q = [[], [14], [18], [20], [7], [15], [14, 7], [20, 7, 18], [15, 14]]
LAYOUTS_T = LAYOUTS_Q + [[14, 14], [7, 7], [18, 7, 7, 14], [20, 20, 7, 15], [15, 15], [14, 18, 20, 7]]


NAMED_Q = [dict(layouts=[14, 14, 14], names=["md12", "md127", "md12p1"]), dict(layouts=[20, 20, 20], names=["dm-1", "dm-10", "dm-2"]), dict(layouts=[14, 14], names=["cciss/c0d0", "cciss/c0d0p1"])]
NAMED_T = NAMED_Q + [dict(layouts=[18, 18, 18, 18], names=["nvme0n1", "nvme0n1p1", "nvme0n10", "nvme0n10p2"]), dict(layouts=[14, 14, 14], names=["loop1", "loop10", "loop11"]),
                     dict(layouts=[14, 7, 14], names=["sda", "sda1", "sda10"]), dict(layouts=[14, 14], names=["mmcblk0", "mmcblk0p1"])]


@harness("C09.disks", quick=[dict(layouts=l) for l in LAYOUTS_Q] + NAMED_Q, thorough=[dict(layouts=l) for l in LAYOUTS_T] + NAMED_T)
def disks(ctx, layouts, names=None):
    """names: device names for which guessing "is this a partition of that disk?" from the spelling goes wrong (md12 / md127, dm-1 /
    dm-10 are all whole devices): what is a whole disk is what /sys/block lists, whatever the names look like"""
    k = simk.Kernel(ctx)
    lines, want, whole, lay_of, shifted = [], {}, {}, {}, {}
    for i, lay in enumerate(layouts):
        name = names[i] if names else {7: f"sda{i}", 15: f"hd{chr(97 + i)}"}.get(lay, f"sd{chr(97 + i)}")
        if lay == 15:     # 2.4: major minor #blocks name + 11 stats
            st = [ctx.int(f"d{i}_{j}", 0, 2**64 - 1) for j in range(11)]
            blocks = ctx.int(f"d{i}_blocks", 0, 2**40)
            toks = ["8", str(i), k.num(blocks, True), name] + [k.num(x, True) for x in st]
            want[name] = _from_stats(st)
            shifted[name] = _from_stats([blocks] + st)      # the reading recorded as known finding C09-diskstats-2.4-shift
        elif lay == 7:    # 2.6 partition: major minor name rio rsect wio wsect
            st = [ctx.int(f"d{i}_{j}", 0, 2**64 - 1) for j in range(4)]
            toks = ["8", str(i), name] + [k.num(x, True) for x in st]
            want[name] = dict(read_count=st[0], read_bytes=st[1] * 512, write_count=st[2], write_bytes=st[3] * 512,
                              read_merged_count=0, write_merged_count=0, read_time=0, write_time=0, busy_time=0)
        else:             # 14 / 18 / 20 fields
            st = [ctx.int(f"d{i}_{j}", 0, 2**64 - 1) for j in range(lay - 3)]
            toks = ["8", str(i), name] + [k.num(x, True) for x in st]
            want[name] = _from_stats(st)
        assert len(toks) == lay
        lay_of[name] = lay
        lines.append("   " + " ".join(toks) + "\n")
        whole[name] = ctx.flag(f"whole{i}")          # does /sys/block/<name> exist?
        if whole[name]:
            k.dirs["/sys/block/" + name.replace("/", "!")] = []      # sysfs spells the slash of names like cciss/c0d0 as '!'

    k.files["/proc/diskstats"] = "".join(lines)
    k.dirs["/sys/block"] = []
    if not layouts and ctx.flag("sysfs_shows_a_disk_diskstats_does_not_list"):
        # /proc/diskstats is the table the statement is about: when it lists nothing, nothing is reported -- whatever a (container's)
        # /sys/block shows
        k.dirs["/sys/block"] = ["sdz"]
        k.dirs["/sys/block/sdz"] = ["stat", "dev"]
        k.files["/sys/block/sdz/stat"] = " ".join(str(100 + j) for j in range(17)) + "\n"
        k.files["/sys/block/sdz/dev"] = "8:0\n"
    with k.installed():
        per = psutil.disk_io_counters(perdisk=True, nowrap=False)
        tot = psutil.disk_io_counters(perdisk=False, nowrap=False)
    ctx.observe("disk_io", (sorted(per.items()) if per else per, tot))
    ctx.prove(set(per) == set(want), "all-devices-listed")
    for name, w in want.items():
        ctx.prove(ctx.all([ctx.eq(getattr(per[name], f), w[f]) for f in w]), f"fields-layout{lay_of[name]}")
        if name in shifted:     # anything other than the correct or the known (shifted) reading is a new violation
            ctx.prove(ctx.any([ctx.all([ctx.eq(getattr(per[name], f), alt[f]) for f in alt]) for alt in (w, shifted[name])]), "fields-layout15-correct-or-known-shift")
    wh = [n for n in want if whole[n]]
    if not wh:
        ctx.prove(tot is None, "no-whole-disk-total-none")
    elif any(n in shifted for n in wh):
        ctx.prove(ctx.all([ctx.eq(getattr(tot, f), ctx.sum([want[n][f] for n in wh])) for f in tot._fields]), "total-with-2.4-line")
        ctx.prove(ctx.any([ctx.all([ctx.eq(getattr(tot, f), ctx.sum([(shifted[n] if alt and n in shifted else want[n])[f] for n in wh])) for f in tot._fields]) for alt in (0, 1)]),
                  "total-with-2.4-line-correct-or-known-shift")
    else:
        ctx.prove(ctx.all([ctx.eq(getattr(tot, f), ctx.sum([want[n][f] for n in wh])) for f in tot._fields]), "total-over-whole-disks")


@harness("C09.disks_sysfs", quick=[dict(nstat=n) for n in (11, 17)], thorough=[dict(nstat=n) for n in (11, 15, 17)])
def disks_sysfs(ctx, nstat):
    """the fallback used when /proc/diskstats is absent: the counters come from /sys/block/<disk>/stat and /sys/block/<disk>/<part>/stat
    (iostats.rst: the same columns as diskstats after the name): same field mapping, sectors times 512, totals over whole disks only"""
    k = simk.Kernel(ctx)
    devs = {"sda": "/sys/block/sda", "sda1": "/sys/block/sda/sda1", "nvme0n1": "/sys/block/nvme0n1"}
    want = {}
    for j, (name, root) in enumerate(devs.items()):
        st = [ctx.int(f"{name}_{i}", 0, 2**64 - 1) if name != "nvme0n1" else 100 * j + i for i in range(nstat)]
        k.files[root + "/stat"] = " ".join(k.num(x, True) for x in st) + "\n"
        k.files[root + "/dev"] = "8:0\n"
        want[name] = _from_stats(st)
    k.dirs["/sys/block"] = ["sda", "nvme0n1"]
    k.dirs["/sys/block/sda"] = ["stat", "dev", "sda1", "queue"]
    k.dirs["/sys/block/nvme0n1"] = ["stat", "dev"]
    with k.installed():
        per = ctx.guard("sysfs-fallback", psutil.disk_io_counters, perdisk=True, nowrap=False)
        tot = ctx.guard("sysfs-fallback", psutil.disk_io_counters, perdisk=False, nowrap=False)
    ctx.prove(set(per) == set(want), "all-devices-listed", detail=f"{sorted(per)}")
    for name, w in want.items():
        if name in per:
            ctx.prove(ctx.all([ctx.eq(getattr(per[name], f), w[f]) for f in w]), "fields-sysfs", detail=name)
    ctx.prove(tot is not None and ctx.all([ctx.eq(getattr(tot, f), want["sda"][f] + want["nvme0n1"][f]) for f in tot._fields]), "total-over-whole-disks", detail=f"{tot}")


class _Statvfs:
    pass


@harness("C09.disk_usage", quick=[dict(frsize=f) for f in (512, 4096)] + [dict(frsize=512, bsize=1048576), dict(frsize=4096, bsize=512)],
         thorough=[dict(frsize=f) for f in (1, 512, 4096, 65536, 1048576)] + [dict(frsize=f, bsize=b) for f, b in ((512, 1048576), (4096, 512), (1024, 4096), (4096, 0), (1, 65536))])
def disk_usage(ctx, frsize, bsize=None):
    """block counts are in units of f_frsize (POSIX statvfs); f_bsize, the preferred I/O size, may differ (NFS, FUSE) and plays no part"""
    k = simk.Kernel(ctx)
    st = _Statvfs()
    st.f_frsize = frsize
    st.f_bsize = frsize if bsize is None else bsize
    st.f_blocks = ctx.int("f_blocks", 0, 2**64 - 1)
    st.f_bfree = ctx.int("f_bfree", 0, 2**64 - 1)
    st.f_bavail = ctx.int("f_bavail", 0, 2**64 - 1)
    ctx.assume(ctx.all([st.f_bavail <= st.f_bfree, st.f_bfree <= st.f_blocks]))
    k.statvfs = {"/mnt/x": st}
    with k.installed():
        r = psutil.disk_usage("/mnt/x")
    ctx.observe("disk_usage", tuple(r))
    total = st.f_blocks * frsize
    used = (st.f_blocks - st.f_bfree) * frsize
    free = st.f_bavail * frsize
    ctx.prove(ctx.all([ctx.eq(r.total, total), ctx.eq(r.used, used), ctx.eq(r.free, free)]), "disk_usage-fields")
    if ctx.symbolic:
        src = getattr(r.percent, "round_src", None)
        if src is not None:
            ctx.prove(ctx.all([used + free > 0, src[1] == 1, ctx.is_ratio(src[0], 100 * used, used + free), src[0] >= 0, src[0] <= 100]), "disk_usage-percent")
        else:
            ctx.prove(ctx.all([ctx.eq(used + free, 0), ctx.eq(r.percent, 0)]), "disk_usage-percent-zero")
    else:
        ctx.prove(r.percent == (round(float(used) / (used + free) * 100, 1) if used + free else 0.0), "disk_usage-percent" if used + free else "disk_usage-percent-zero")
