"""C07 — CPU times and CPU percentages are exact shares of elapsed time.

Real code executed: psutil.cpu_times/cpu_percent/cpu_times_percent/_cpu_tot_time/_cpu_busy_time/_cpu_times_deltas,
Process.cpu_percent, _pslinux.cpu_times/per_cpu_times/set_scputimes_ntuple/cpu_count_logical (+ Process.__init__ chain).
"""
from psv import simk
from psv.run import harness
from psv.simk import psutil

FIELDS = ["user", "nice", "system", "idle", "iowait", "irq", "softirq", "steal", "guest", "guest_nice"]
CLK = 100
TOTALS_Q = [0, 7, 100, 12345]
TOTALS_T = [0, 1, 7, 99, 100, 101, 12345, 2**40]

META = dict(
    assumptions=[
        "kernel accounting contract: between two samples guest grows by no more than user and guest_nice by no more than nice, and neither decreases (otherwise the statement's 'total' is not even non-negative)",
        "floats are modelled as exact reals; round(x, 1) returns k/10 with |10x - k| <= 1/2 (either neighbour on a tie); IEEE rounding error and int->float inexactness above 2^53 are outside the claim",
        "text->number boundary: int()/float() of the decimal rendering of n is n; tokenisation does not depend on which digits a numeral has (digit placeholders, int/float shadowed in the psutil modules' globals)",
        "time.sleep(d) takes exactly d on the virtual clock",
    ],
    stubs=["open() of /proc/stat and /proc/<pid>/stat rendered in the kernel's format", "os.sysconf", "threading.current_thread().ident (thread harness)",
           "time.sleep / _timer (virtual clock)"],
    bounds=dict(
        quick=dict(cpus="aggregate line + 2 CPUs, one unit symbolic at a time", fields=[7, 8, 9, 10], total_delta_ticks=TOTALS_Q, backwards="at most one of the first 8 counters of the symbolic unit decreases (which one is symbolic)", thread_calls=3, tick_range="[0, 2^64)"),
        thorough=dict(cpus="aggregate line + 2 CPUs, one unit symbolic at a time", fields=[7, 8, 9, 10], total_delta_ticks=TOTALS_T, backwards="at most one of the first 8 counters of the symbolic unit decreases (which one is symbolic)", thread_calls=4, tick_range="[0, 2^64)"),
    ),
    outside=["total deltas other than the pinned boundary values (all individual deltas stay symbolic)", "two counters of one CPU decreasing at once", "GIL-level races inside one source line",
             "more than 2 CPUs (the per-CPU code is a loop over lines; units are independent)"],
    labels=["cpu_times-fields", "cpu_percent-formula", "times_percent-in-range", "times_percent-sum-100", "times_percent-subsecond-correct-or-known-scale", "thread-own-baseline", "negative-interval-ValueError",
            "blocking-sleeps-interval", "proc-cpu_percent-formula", "proc-first-call-zero"],
)

CONC = [[11, 22, 33, 44, 55, 66, 77, 88, 5, 6], [111, 222, 333, 444, 555, 666, 777, 888, 50, 60]]   # concrete unit: two snapshots add this


def render(k, snap, nf):
    """snap: dict unit -> list of nf tick values; units 'sys', 0, 1"""
    out = "cpu  " + " ".join(k.num(x, True) for x in snap["sys"][:nf]) + "\n"
    for i in (0, 1):
        out += f"cpu{i} " + " ".join(k.num(x, True) for x in snap[i][:nf]) + "\n"
    return out + "intr 1\nctxt 2\nbtime 1000\nprocesses 3\n"


def sym_unit(ctx, nf, T, tag=""):
    a = [ctx.int(f"a{tag}_{j}", 0, 2**64 - 1) for j in range(nf)]
    b = [ctx.int(f"b{tag}_{j}", 0, 2**64 - 1) for j in range(nf)]
    if nf >= 9:
        ctx.assume(ctx.all([b[8] - a[8] <= ctx.max(0, b[0] - a[0]), b[8] >= a[8]]))
    if nf >= 10:
        ctx.assume(ctx.all([b[9] - a[9] <= ctx.max(0, b[1] - a[1]), b[9] >= a[9]]))
    back = ctx.choice(f"back{tag}", list(range(min(nf, 8) + 1)))      # index of the counter running backwards (last = none)
    for j in range(min(nf, 8)):
        ctx.assume(b[j] < a[j] if j == back else b[j] >= a[j])
    ctx.assume(ctx.eq(ctx.sum([ctx.max(0, b[j] - a[j]) for j in range(min(nf, 8))]), T))
    return a, b


def _snaps(ctx, nf, T, unit):
    a, b = sym_unit(ctx, nf, T)
    s1, s2 = {}, {}
    for u, base in (("sys", 0), (0, 1), (1, 0)):
        if u == unit:
            s1[u], s2[u] = a, b
        else:
            c = CONC[base]
            s1[u] = c[:]
            s2[u] = [x + d for x, d in zip(c, [7, 0, 3, 50, 2, 1, 1, 0, 0, 0])]
    return a, b, s1, s2


@harness("C07.times", quick=[dict(nf=f) for f in (7, 10)], thorough=[dict(nf=f) for f in (7, 8, 9, 10)])
def times(ctx, nf):
    k = simk.Kernel(ctx)
    snap = {u: [ctx.int(f"t{u}_{j}", 0, 2**64 - 1) for j in range(nf)] for u in ("sys", 0, 1)}
    k.files["/proc/stat"] = lambda: render(k, snap, nf)
    with k.installed():
        tot = psutil.cpu_times()
        per = psutil.cpu_times(percpu=True)
    ctx.observe("cpu_times", (tot, per))
    ctx.prove(len(per) == 2 and len(tot) == nf and tot._fields == tuple(FIELDS[:nf]), "cpu_times-shape")
    for u, t in (("sys", tot), (0, per[0]), (1, per[1])):
        ctx.prove(ctx.all([ctx.eq(getattr(t, FIELDS[j]), ctx.div(snap[u][j], CLK)) for j in range(nf)]), "cpu_times-fields")


@harness("C07.many_cpus", quick=[dict(cpus=list(range(12))), dict(cpus=[0, 2, 4, 10, 11])], thorough=[dict(cpus=list(range(12))), dict(cpus=[0, 2, 4, 10, 11]), dict(cpus=list(range(60)))])
def many_cpus(ctx, cpus):
    """per-CPU results come in the kernel's order (cpu0, cpu1, ..., cpu9, cpu10, ... -- numeric, with holes where CPUs are off-line), one
    symbolic CPU at a time, the others concrete and pairwise different; cpu_percent(percpu=True) attributes the load to the same index"""
    k = simk.Kernel(ctx)
    which = ctx.choice("which", list(range(len(cpus))))
    nf = 10
    a = [ctx.int(f"a{j}", 0, 2**40) for j in range(nf)]
    rows1 = {c: ([1000 * c + j for j in range(nf)] if i != which else a) for i, c in enumerate(cpus)}
    state = {"rows": rows1}

    def stat():
        rows = state["rows"]
        out = "cpu  " + " ".join(["1"] * nf) + "\n"
        for c in cpus:
            out += f"cpu{c} " + " ".join(k.num(x, True) for x in rows[c]) + "\n"
        return out + "intr 1\nctxt 2\nbtime 1000\n"

    k.files["/proc/stat"] = stat
    k.sysconf["SC_NPROCESSORS_ONLN"] = len(cpus)
    with k.installed():
        per = ctx.guard("cpu_times-fields", psutil.cpu_times, percpu=True)
        psutil.cpu_percent(percpu=True)
        # second sample: only the CPU at list position 1 was busy (100 ticks of user time), all others idle for 100 ticks
        state["rows"] = {c: [x + (100 if (j == 0 and i == 1) or (j == 3 and i != 1) else 0) for j, x in enumerate(rows1[c])] for i, c in enumerate(cpus)}
        pc = ctx.guard("cpu_percent-formula", psutil.cpu_percent, percpu=True)
    ctx.prove(len(per) == len(cpus), "cpu_times-shape")
    for i, c in enumerate(cpus):
        ctx.prove(ctx.all([ctx.eq(getattr(per[i], FIELDS[j]), ctx.div(rows1[c][j], CLK)) for j in range(nf)]), "cpu_times-fields", detail=f"index {i} must be cpu{c}")
    ctx.prove(len(pc) == len(cpus) and all(ctx.eq(v, 100 if i == 1 else 0) if not hasattr(v, "round_src") else True for i, v in enumerate(pc)), "cpu_percent-formula", detail=f"{pc}")


@harness("C07.percent",
         quick=[dict(nf=f, T=T, unit=u) for f, u in ((7, "sys"), (8, 0), (9, 1), (10, 1), (10, "sys")) for T in TOTALS_Q],
         thorough=[dict(nf=f, T=T, unit=u) for f in (7, 8, 9, 10) for u in ("sys", 0, 1) for T in TOTALS_T])
def percent(ctx, nf, T, unit):
    k = simk.Kernel(ctx)
    a, b, s1, s2 = _snaps(ctx, nf, T, unit)
    state = {"snap": s1}
    k.files["/proc/stat"] = lambda: render(k, state["snap"], nf)
    with k.installed():
        psutil.cpu_percent(), psutil.cpu_times_percent()
        psutil.cpu_percent(percpu=True), psutil.cpu_times_percent(percpu=True)
        state["snap"] = s2
        pc_sys, tp_sys = psutil.cpu_percent(), psutil.cpu_times_percent()
        pc_per, tp_per = psutil.cpu_percent(percpu=True), psutil.cpu_times_percent(percpu=True)
    ctx.observe("percent", (pc_sys, tp_sys, pc_per, tp_per))
    pc = pc_sys if unit == "sys" else pc_per[unit]
    tp = tp_sys if unit == "sys" else tp_per[unit]
    d = [ctx.max(0, y - x) for x, y in zip(a, b)]
    tot = ctx.sum(d[:8])
    busy = tot - d[3] - d[4]
    ctx.prove(len(pc_per) == 2 and len(tp_per) == 2 and len(tp) == nf, "percent-shape")
    if ctx.symbolic:
        src = getattr(pc, "round_src", None)
        if src is not None:
            ctx.prove(ctx.all([src[0] >= 0, src[0] <= 100]), "cpu_percent-in-range")
            ctx.prove(ctx.all([tot > 0, ctx.eq(src[0] * tot, 100 * busy)]), "cpu_percent-formula")
        else:
            ctx.prove(ctx.all([ctx.eq(tot, 0), ctx.eq(pc, 0)]), "cpu_percent-zero-total")
        ctx.prove(ctx.all([v >= 0 for v in tp] + [v <= 100 for v in tp]), "times_percent-in-range")
        # each share is the field's own share of the total (before rounding): |share - 100*d/tot| <= 0.05
        sub = "[subsecond]" if 0 < T < CLK else ""      # known finding C07-times-percent-subsecond: total below one second
        share_ok = ctx.all([ctx.all([(v * tot - 100 * dj) * 20 <= tot, (v * tot - 100 * dj) * 20 >= -tot]) for v, dj in zip(tp, d)])
        ctx.prove(ctx.implies(tot > 0, share_ok), "times_percent-field-share" + sub)
        s = ctx.sum(list(tp)[:8])
        ctx.prove(ctx.implies(tot > 0, ctx.all([s * 20 >= 2000 - nf, s * 20 <= 2000 + nf])), "times_percent-sum-100" + sub)
        if sub:
            # anything other than the correct shares or the known scale (each share = the field's delta in ticks, since
            # 100/max(1, seconds) = 100 and ticks/100*100 = ticks) is a new violation
            known = ctx.all([ctx.all([(v - dj) * 20 <= 1, (v - dj) * 20 >= -1]) for v, dj in zip(tp, d)])
            ctx.prove(ctx.any([share_ok, known]), "times_percent-subsecond-correct-or-known-scale")
    else:
        ctx.prove(0 <= pc <= 100, "cpu_percent-in-range")
        if tot > 0:
            ctx.prove(abs(pc - 100.0 * busy / tot) <= 0.05 + 1e-9, "cpu_percent-formula")
        else:
            ctx.prove(pc == 0.0, "cpu_percent-zero-total")
        ctx.prove(all(0 <= v <= 100 for v in tp), "times_percent-in-range")
        sub = "[subsecond]" if 0 < T < CLK else ""
        share_ok = tot == 0 or all(abs(v - 100.0 * dj / tot) <= 0.05 + 1e-9 for v, dj in zip(tp, d))
        ctx.prove(share_ok, "times_percent-field-share" + sub)
        ctx.prove(tot == 0 or abs(sum(list(tp)[:8]) - 100) <= nf * 0.05 + 1e-9, "times_percent-sum-100" + sub)
        if sub:
            ctx.prove(share_ok or all(abs(v - dj) <= 0.05 + 1e-9 for v, dj in zip(tp, d)), "times_percent-subsecond-correct-or-known-scale")


class _Thr:
    """threading stand-in: current_thread().ident is the harness-chosen caller id"""

    def __init__(self):
        self.ident = 1

    def current_thread(self):
        return self


@harness("C07.threads", quick=[dict(ncalls=3, fn="cpu_percent"), dict(ncalls=3, fn="cpu_times_percent")],
         thorough=[dict(ncalls=4, fn="cpu_percent"), dict(ncalls=4, fn="cpu_times_percent")])
def threads(ctx, ncalls, fn):
    """Each calling thread is measured against its own previous sample: a history of calls with a symbolic caller id and a
    symbolic blocking/non-blocking form per call (a blocking call samples before and after its sleep, during which the kernel
    counters move on, and leaves its second sample as that thread's previous sample)."""
    k = simk.Kernel(ctx)
    nf = 7
    nsnap = 2 * ncalls + 1
    DT = [0] + [100, 250, 400, 300, 150, 700, 200, 500, 350][:nsnap - 1]   # pinned total delta between consecutive snapshots (ticks; all >= 1 s)
    snaps = [[ctx.int(f"s0_{j}", 0, 2**62) for j in range(nf)]]
    for i in range(1, nsnap):
        cur = [ctx.int(f"s{i}_{j}", 0, 2**62) for j in range(nf)]
        for j in range(nf):
            ctx.assume(cur[j] >= snaps[-1][j])
        ctx.assume(ctx.eq(ctx.sum(cur) - ctx.sum(snaps[-1]), DT[i]))
        snaps.append(cur)
    state = {"i": 0}
    k.files["/proc/stat"] = lambda: render(k, {"sys": snaps[state["i"]], 0: CONC[0], 1: CONC[1]}, nf)
    orig_sleep = k.sleep

    def sleep(d):               # the kernel counters move on while the caller sleeps
        orig_sleep(d)
        state["i"] += 1

    k.sleep = sleep
    thr = _Thr()
    last = {}
    with k.installed(extra=[(psutil, "threading", thr)]):
        for c in range(ncalls):
            tid = ctx.choice(f"tid{c}", [1, 2])
            blocking = ctx.flag(f"blocking{c}")
            thr.ident = tid
            if c:
                state["i"] += 1
            a = state["i"]
            r = getattr(psutil, fn)(interval=0.5) if blocking else getattr(psutil, fn)()
            b = state["i"]
            base = a if blocking else last.get(tid, b)
            ctx.prove(b == (a + 1 if blocking else a), "blocking-samples-around-sleep")
            last[tid] = b
            d = [y - x for x, y in zip(snaps[base], snaps[b])]
            tot = sum(DT[base + 1:b + 1])
            busy = ctx.sum(d) - d[3] - d[4]
            info = f"call {c}: tid={tid} blocking={blocking} measured between snapshots {base}..{b}"
            if fn == "cpu_percent":
                if ctx.symbolic:
                    src = getattr(r, "round_src", None)
                    ctx.prove(ctx.eq(r, 0) if tot == 0 else (src is not None and ctx.eq(src[0] * tot, 100 * busy)), "thread-own-baseline", detail=info)
                else:
                    ctx.prove(r == 0.0 if tot == 0 else abs(r - 100.0 * busy / tot) <= 0.05 + 1e-9, "thread-own-baseline", detail=info)
            else:
                if ctx.symbolic:
                    ctx.prove(ctx.all([ctx.eq(v, 0) for v in r]) if tot == 0 else
                              ctx.all([ctx.all([(v * tot - 100 * dj) * 20 <= tot, (v * tot - 100 * dj) * 20 >= -tot]) for v, dj in zip(r, d)]), "thread-own-baseline", detail=info)
                else:
                    ctx.prove(all(v == 0 for v in r) if tot == 0 else all(abs(v - 100.0 * dj / tot) <= 0.05 + 1e-9 for v, dj in zip(r, d)), "thread-own-baseline", detail=info)


@harness("C07.interval", quick=[dict(fn=f) for f in ("cpu_percent", "cpu_times_percent", "proc")])
def interval(ctx, fn):
    """Negative interval -> ValueError before any sampling; interval > 0 -> exactly one sleep of that length
    between the two samples; None/0 never sleep."""
    k = simk.Kernel(ctx)
    simk.system_files(k)
    simk.full_process(k, 77)
    reads = []
    stat0 = k.files["/proc/stat"]

    def stat():
        reads.append(len(k.sleeps))
        return stat0

    k.files["/proc/stat"] = stat
    kind = ctx.choice("kind", ["neg", "pos", "zero", "none"])
    iv = ctx.real("iv") if kind in ("neg", "pos") else (0 if kind == "zero" else None)
    if kind == "neg":
        ctx.assume(iv < 0)
    elif kind == "pos":
        ctx.assume(iv > 0)
    with k.installed():
        target = psutil.Process(77).cpu_percent if fn == "proc" else getattr(psutil, fn)
        del reads[:]
        n0 = k.naccess_total
        try:
            for percpu in ((False,) if fn == "proc" else (False, True)):
                target(iv) if fn == "proc" else target(iv, percpu)
            exc = None
        except ValueError as e:
            exc = e
    if kind == "neg":
        ctx.prove(exc is not None and k.naccess_total == n0 and not k.sleeps, "negative-interval-ValueError")
    else:
        ctx.prove(exc is None, "valid-interval-no-error")
        if kind == "pos":
            ncalls = 1 if fn == "proc" else 2
            ctx.prove(len(k.sleeps) == ncalls and ctx.all([ctx.eq(s, iv) for s in k.sleeps]), "blocking-sleeps-interval")
            if fn != "proc":
                # one sample before and one after each sleep
                ctx.prove(sorted(set(reads)) == [0, 1, 2] and reads.count(0) >= 1, "blocking-samples-around-sleep")
        else:
            ctx.prove(not k.sleeps, "nonblocking-never-sleeps")


@harness("C07.proc_percent", quick=[dict(D=D, ncpu=n) for D in (0, 1, "1/1000") for n in (1, 4)] + [dict(D=1, ncpu=2, modes=m) for m in ("nbn", "bnn", "bbn", "nbb", "nfn", "bfn")] + [dict(D=1, ncpu=2, modes="nnn", threads=True)] + [dict(D=1, ncpu=2, modes=m, hotplug=True) for m in ("nnn", "nbn")],
         thorough=[dict(D=D, ncpu=n, modes=m, hotplug=True) for D in (1, "1/1000") for n in (1, 4) for m in ("nnn", "nbn", "bnn", "nnnn")] + [dict(D=D, ncpu=n) for D in (0, 1, "1/1000", "7/2", 86400) for n in (1, 2, 4, 64)] + [dict(D=D, ncpu=n, modes=m) for D in (1, "1/1000") for n in (1, 4) for m in ("nbn", "bnn", "bbn", "nbb", "bnb", "bbb", "nfn", "bfn", "nfb", "nffn")])
def proc_percent(ctx, D, ncpu, modes="nnn", threads=False, hotplug=False):
    """Process.cpu_percent() = 100 * (CPU seconds used) / (wall seconds elapsed) since the previous call on that object (whether
    that call was blocking or not); a blocking call measures its own interval; 0.0 on the first non-blocking call and when no wall
    time elapsed.  modes: one letter per call, n = cpu_percent(None), b = cpu_percent(interval=D).  hotplug: the number of online
    CPUs changes (to a symbolic other count) before one of the calls -- the statement's ratio does not mention the CPU count."""
    import fractions

    D = fractions.Fraction(D)
    k = simk.Kernel(ctx)
    simk.system_files(k)
    k.sysconf["SC_NPROCESSORS_ONLN"] = ncpu
    N = 2 * len(modes) + 1
    u = [ctx.int(f"u{i}", 0, 2**64 - 1) for i in range(N)]
    s = [ctx.int(f"s{i}", 0, 2**64 - 1) for i in range(N)]
    t0 = ctx.real("t0", 0, 10**9)
    state = {"i": 0}
    simk.full_process(k, 77)
    def stat_file():
        if state.get("denied"):
            raise simk.oserr(13, "/proc/77/stat")
        return simk.stat_record(k, 77, b"cat", b"S", {4: 1, 14: u[state["i"]], 15: s[state["i"]], 22: 5000})

    k.files["/proc/77/stat"] = stat_file
    plain_sleep = k.sleep

    def sleep(d):                  # while the caller sleeps the process goes on ticking: the next sample is a new one
        plain_sleep(d)
        state["i"] += 1

    k.sleep = sleep
    results, prev = [], None       # prev = (time, sample index) of the end of the previous call

    class _Thread:
        ident = 1
        name = "t"

    class _Threading:            # the calls come from different threads (idents 1, 2, 1, ...): one object, one history
        def __getattr__(self, n):
            import threading as _t
            return getattr(_t, n)

        @staticmethod
        def current_thread():
            return _Thread

        @staticmethod
        def get_ident():
            return _Thread.ident

    plug_at = ctx.choice("cpus_change_before_call", list(range(1, len(modes)))) if hotplug else None
    new_ncpu = ctx.choice("new_cpu_count", [1, 3, 8]) if hotplug else None
    with k.installed(extra=[(psutil, "threading", _Threading())] if threads else []):
        p = psutil.Process(77)
        k.now = t0
        for j, m in enumerate(modes):
            if j:
                k.now = k.now + D
                state["i"] += 1
            _Thread.ident = 1 + (j % 2 if threads else 0)
            if hotplug and j and j == plug_at:
                k.sysconf["SC_NPROCESSORS_ONLN"] = new_ncpu
            start = (k.now, state["i"])
            if m == "f":           # a call that fails: the stat record is refused (EACCES) for its duration
                state["denied"] = True
                try:
                    p.cpu_percent(None)
                    failed = False
                except psutil.AccessDenied:
                    failed = True
                state["denied"] = False
                ctx.prove(failed, "proc-denied-call-raises-AccessDenied")
                continue           # the next call is measured against the last call that completed
            r = p.cpu_percent(float(D) if D.denominator in (1, 2) else D) if m == "b" else p.cpu_percent(None)
            end = (k.now, state["i"])
            results.append((r, m, start if m == "b" else prev, end))
            prev = end
    ctx.observe("proc_percent", tuple(r for r, *_ in results))
    for j, (r, m, ref, end) in enumerate(results):
        j = [i_ for i_, c_ in enumerate(modes) if c_ != "f"][j]
        if ref is None:
            ctx.prove(ctx.eq(r, 0), "proc-first-call-zero")
            continue
        wall = end[0] - ref[0]
        dp = (u[end[1]] - u[ref[1]]) + (s[end[1]] - s[ref[1]])
        tag = "[cpu-count-changed]" if hotplug else "" if modes == "nnn" else "[after-a-failed-call]" if "f" in modes else "[after-blocking-call]" if j and modes[j - 1] == "b" and m == "n" else "[blocking]" if m == "b" else ""
        if wall == 0:
            ctx.prove(ctx.eq(r, 0), "proc-zero-wall-zero")
        elif ctx.symbolic:
            src = getattr(r, "round_src", None)
            # (a plain number instead of a rounded term -- e.g. a literal 0.0 -- is compared as it is)
            ctx.prove(ctx.eq(src[0] * wall * CLK, 100 * dp) if src is not None else ctx.eq(r * wall * CLK, 100 * dp), "proc-cpu_percent-formula" + tag, detail=f"call {j} ({modes})")
        else:
            ctx.prove(abs(r - 100.0 * dp / CLK / float(wall)) <= 0.05 + 1e-6 * abs(r), "proc-cpu_percent-formula" + tag, detail=f"call {j} ({modes}): {r}")
