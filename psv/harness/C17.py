"""C17 — The C extension is memory-safe and decodes OS records faithfully (partial: named leaf functions only).

C side (cir): the LLVM IR of arch/linux/users.c:psutil_users, arch/linux/proc.c:psutil_proc_ioprio_get/set,
_psutil_posix.c:psutil_net_if_mtu/psutil_net_if_flags (PSUTIL_STRNCPY sites), _psutil_posix.c:psutil_posix_getpriority/setpriority,
_psutil_common.c:psutil_check_pid_range, arch/linux/mem.c:psutil_linux_sysinfo is produced with clang from the current tree on every
run and executed symbolically over bit-vectors with a bounds-checked byte memory.
Python side (psym): _pslinux.disk_partitions / users over stub cext records.
"""
import re

import z3

from psv import cir, seq, simk, sym
from psv.run import harness
from psv.simk import _pslinux, psutil

META = dict(
    assumptions=[
        "CPython C-API functions and libc functions are trusted stubs with their documented contracts: PyArg_ParseTuple writes arbitrary values of the C types named by the actual format string; PyUnicode_DecodeFSDefault/strcmp read a C string (to the first NUL) at the pointer they are given; "
        "PyUnicode_DecodeFSDefaultAndSize reads exactly `size` bytes; strnlen(p, n) reads at most n bytes; strncpy(dst, src, n) writes n bytes; getutent returns a pointer to a 384-byte record of arbitrary bytes; syscalls return arbitrary values",
        "the IR is clang 14 -O0 output for x86-64 with the macros setup.py defines on Linux; struct layouts are computed from the IR's own type table",
        "allocation failure (NULL from PyList_New / Py_BuildValue / decode) is modelled as possible where the code checks for it",
    ],
    stubs=["PyArg_ParseTuple, Py_BuildValue, PyList_New/Append, PyUnicode_DecodeFSDefault[AndSize], PyErr_*, strcmp, strnlen, strncpy, getutent/setutent/endutent, socket/ioctl/close, syscall, getpriority/setpriority, sysinfo, __errno_location"],
    bounds=dict(quick=dict(utmp="one login record, all 384 bytes symbolic", ioprio="class and level any 32-bit int (round-trip claimed for class 0..3, level 0..7)", nic_name="lengths 0, 1, 15, 16, 40"),
                thorough=dict(utmp="one record, all bytes symbolic; two records", ioprio="as quick", nic_name="lengths 0..20, 64, 255")),
    outside=["everything inside CPython and libc (getmntent, getifaddrs, getnameinfo)", "the sanitizer-run formulation of the statement (a different technique)", "the parsing glibc's getmntent() does (escapes, field splitting): only the buffer-size contract of getmntent_r and the hand-over of the four strings are checked", "psutil_proc_cpu_affinity_get/set (symbolic CPU_SET indexing is not supported by cir)",
             "psutil_convert_ipaddr's MAC loop", "wrong argument *types* (rejected inside PyArg_ParseTuple, which is trusted)"],
    extra=dict(c_functions_encoded=["arch/linux/users.c:psutil_users", "arch/linux/proc.c:psutil_proc_ioprio_get", "arch/linux/proc.c:psutil_proc_ioprio_set", "_psutil_posix.c:psutil_net_if_mtu",
                                    "_psutil_posix.c:psutil_net_if_flags", "_psutil_posix.c:psutil_posix_getpriority", "_psutil_posix.c:psutil_posix_setpriority", "_psutil_common.c:psutil_check_pid_range",
                                    "arch/linux/mem.c:psutil_linux_sysinfo", "arch/linux/disk.c:psutil_disk_partitions"],
               ir="clang -S -emit-llvm -O0 -Xclang -disable-O0-optnone with the Linux macros of setup.py, regenerated from /repo on every run"),
    labels=["memory-in-bounds", "cstring-within-record", "string-within-field", "users-fields", "ioprio-packing", "ioprio-roundtrip", "strncpy-in-bounds", "partitions-filter", "users-tuple"],
)

_IR = {}


def module(rel):
    if rel not in _IR:
        _IR[rel] = cir.Module(cir.lower(rel))
    return _IR[rel]


def classify(what):
    if "C string read runs past" in what:
        return "cstring-within-record"
    if "exceeds its field" in what:
        return "string-within-field"
    if "overflow" in what:
        return "no-signed-overflow"
    if "strncpy" in what:
        return "strncpy-in-bounds"
    return "memory-in-bounds"


def model_assignment(m, prefix, n):
    out = {}
    if m is None:
        return out
    vals = {d.name(): m[d] for d in m.decls()}
    for i in range(n):
        v = vals.get(f"{prefix}{i}")
        out[f"{prefix}{i}"] = v.as_long() if v is not None else 0
    return out


def report(ctx, I, labels_reached, assign_fn):
    seen = set()
    for what, m, log in I.findings:
        lab = classify(what)
        if (lab, what) in seen:
            continue
        seen.add((lab, what))
        ctx.external(lab, False, assign_fn(m), detail=what)
    for lab in labels_reached:
        if not any(classify(w) == lab for w, _, _ in I.findings):
            ctx.external(lab, True)
    ctx.add_stats(queries=I.queries, solver_s=I.solver_s, decisions=I.branches, paths=max(I.paths - 1, 0))
    if I.unknown:
        ctx.add_stats(inconclusive=I.unknown)


# ---- users.c ----------------------------------------------------------------------------------------------------------------

def users_stubs(mod, recs, state):
    def PyList_New(I, st, w, c, n):
        return cir.newobj(I, st, "list")

    def getutent(I, st, w, c):
        n = sum(1 for x in st.log if x[0] == "getutent")
        st.log.append(("getutent",))
        if n >= len(recs):
            return cir.NULL
        k = st.new_obj("utmp", 384, dict(recs[n]))
        state["rec_objs"].append(k)
        return cir.Ptr(k, 0, 0, 384)

    def decode(I, st, w, c, p):
        cir.cstring_obligations(I, st, p, "PyUnicode_DecodeFSDefault")
        st.log.append(("decode", p.obj, p.off, None))
        return cir.newobj(I, st, "str")

    def decode_n(I, st, w, c, p, n):
        o = st.objs[p.obj]
        hi = p.hi if p.hi is not None else o.size
        I.oblige(st, z3.ULE(n, z3.BitVecVal(hi - p.off, 64)), f"PyUnicode_DecodeFSDefaultAndSize: decoded string exceeds its field [{p.lo},{p.hi}) of {p.obj.split('#')[0]}")
        st.log.append(("decode", p.obj, p.off, n))
        return cir.newobj(I, st, "str")

    def strnlen(I, st, w, c, p, n):
        nn = z3.simplify(n)
        if not z3.is_bv_value(nn):
            raise NotImplementedError("strnlen with symbolic bound")
        nmax = nn.as_long()
        o = st.objs[p.obj]
        I.oblige(st, p.off + nmax <= o.size, f"strnlen reads up to {nmax} bytes past {p}: C string read runs past the end of object {p.obj.split('#')[0]}")
        L = z3.BitVec(f"strnlen{len(st.log)}", 64)
        bs = [I.byte_at(st, p.obj, p.off + i) for i in range(min(nmax, o.size - p.off))]
        st.pc.append(z3.ULE(L, nmax))
        for i, b in enumerate(bs):
            st.pc.append(z3.Implies(z3.UGT(L, i), b != 0))
            st.pc.append(z3.Implies(L == i, b == 0))
        st.log.append(("strnlen", p.obj, p.off, nmax))
        return L

    def strcmp(I, st, w, c, a, b):
        lit = cir.const_cstr(I, st, b)
        if lit is None:
            raise NotImplementedError("strcmp with two non-constant strings")
        want = list(lit.encode("latin-1")) + [0]
        o = st.objs[a.obj]
        # strcmp against a constant reads at most len(constant)+1 bytes of the other string
        I.oblige(st, a.off + len(want) <= o.size, "strcmp: load out of bounds")
        eq = z3.And(*[I.byte_at(st, a.obj, a.off + i) == want[i] for i in range(len(want))])
        st.log.append(("strcmp", a.obj, a.off, lit))
        return z3.If(eq, z3.BitVecVal(0, 32), z3.BitVecVal(1, 32))

    def Py_BuildValue(I, st, w, c, fmt, *a):
        st.log.append(("build", cir.const_cstr(I, st, fmt), a))
        return cir.newobj(I, st, "tuple")

    def PyList_Append(I, st, w, c, l, x):
        return z3.BitVecVal(0, 32)

    return {"@PyList_New": PyList_New, "@setutent": cir.nop, "@endutent": cir.nop, "@getutent": getutent, "@PyUnicode_DecodeFSDefault": decode,
            "@PyUnicode_DecodeFSDefaultAndSize": decode_n, "@strnlen": strnlen, "@strcmp": strcmp, "@Py_BuildValue": Py_BuildValue, "@PyList_Append": PyList_Append,
            "@_Py_Dealloc": cir.nop, "@Py_XDECREF": cir.nop, "@Py_DecRef": cir.nop, "@Py_IncRef": cir.nop}


@harness("C17.users_c", quick=[dict(nrec=1)], thorough=[dict(nrec=1), dict(nrec=2)], validate=True)
def users_c(ctx, nrec):
    mod = module("arch/linux/users.c")
    concrete = [[ctx.int(f"r{r}b{i}", 0, 255) for i in range(384)] for r in range(nrec)]
    recs = []
    for r in range(nrec):
        if ctx.symbolic:
            recs.append({i: z3.BitVec(f"r{r}b{i}", 8) for i in range(384)})
        else:
            recs.append({i: z3.BitVecVal(concrete[r][i], 8) for i in range(384)})
    state = {"rec_objs": []}
    I = cir.Interp(mod, users_stubs(mod, recs, state))
    res = I.run("@psutil_users", [cir.NULL, cir.NULL])

    def assign(m):
        out = {}
        for r in range(nrec):
            out.update(model_assignment(m, f"r{r}b", 384))
        return out

    # decoding fidelity on every completed path: which fields were decoded, what was passed through
    off = {name: mod.field("%struct.utmp", idx)[0] for name, idx in (("ut_type", 0), ("ut_pid", 1), ("ut_line", 2), ("ut_user", 4), ("ut_host", 5), ("ut_tv", 8))}
    fields_ok = True
    why = ""
    for st, ret in res:
        builds = [x for x in st.log if x[0] == "build"]
        decs = [x for x in st.log if x[0] == "decode"]
        for bi, b in enumerate(builds):
            d3 = decs[3 * bi: 3 * bi + 3]
            if len(d3) != 3:
                fields_ok, why = False, "a login tuple is not built from three decoded strings"
                break
            (_, o1, f1, _), (_, o2, f2, _), (_, o3, f3, _) = d3
            if f1 != off["ut_user"] or f2 != off["ut_line"]:
                fields_ok, why = False, f"user/terminal decoded from offsets {f1}/{f2}, expected {off['ut_user']}/{off['ut_line']}"
            host_is_literal = o3.startswith("G@")
            cmp = [x for x in st.log if x[0] == "strcmp" and x[1] == o1]
            if not host_is_literal and f3 != off["ut_host"]:
                fields_ok, why = False, f"host decoded from offset {f3}, expected {off['ut_host']}"
            # tv_sec and pid passed through: arguments 3 and 4 of the tuple
            args = b[2]
            tv = I.load(st, cir.Ptr(o1, off["ut_tv"]), 4, False)
            pid = I.load(st, cir.Ptr(o1, off["ut_pid"]), 4, False)
            a_tv, a_pid = args[3], args[4]
            okv = isinstance(a_tv, tuple) and a_tv[0] == "double_of" and I.oblige(st, a_tv[1] == z3.SignExt(a_tv[1].size() - 32, tv) if a_tv[1].size() > 32 else a_tv[1] == tv, "users: tv_sec not passed through")
            okp = I.oblige(st, a_pid == pid, "users: pid not passed through")
            if not (okv and okp):
                fields_ok, why = False, "tstamp/pid are not the record's ut_tv.tv_sec / ut_pid"
            # ':0' / ':0.0' => localhost
            host = [I.byte_at(st, o1, off["ut_host"] + i) for i in range(5)]
            is0 = z3.Or(z3.And(host[0] == 58, host[1] == 48, host[2] == 0), z3.And(host[0] == 58, host[1] == 48, host[2] == 46, host[3] == 48, host[4] == 0))
            if not I.oblige(st, is0 if host_is_literal else z3.Not(is0), "users: localhost substitution does not follow ':0' / ':0.0'"):
                fields_ok, why = False, "':0'/':0.0' shown as localhost rule"
        # only USER_PROCESS (7) records produce a tuple
        for k in state["rec_objs"]:
            if k in st.objs:
                pass
    report(ctx, I, ["memory-in-bounds", "cstring-within-record", "string-within-field"], assign)
    ctx.external("users-fields", fields_ok and bool(res), detail=why)


# ---- proc.c: ioprio ----------------------------------------------------------------------------------------------------------

def parse_stub(state):
    def PyArg_ParseTuple(I, st, w, c, args, fmt, *outs):
        f = cir.const_cstr(I, st, fmt)
        f = f.split(":")[0]
        if len(f) != len(outs):
            raise NotImplementedError(f"format {f!r} vs {len(outs)} outputs")
        vals = []
        for ch, o in zip(f, outs):
            if ch == "s":
                v = state["strings"].pop(0)(I, st)
                I.store(st, o, 8, v)
            else:
                wdt = {"i": 32, "l": 64, "L": 64, "I": 32}[ch]
                v = state["ints"].pop(0)(wdt) if state.get("ints") else z3.BitVec(f"arg{len(st.log)}_{len(vals)}", wdt)
                I.store(st, o, wdt // 8, v)
            vals.append(v)
        st.log.append(("parse", f, vals))
        return z3.BitVecVal(1, 32)
    return PyArg_ParseTuple


@harness("C17.ioprio_c")
def ioprio_c(ctx):
    """the word handed to the kernel is class<<13 | level for (IOPRIO_WHO_PROCESS, pid); get(set(c, d)) = (c, d)"""
    mod = module("arch/linux/proc.c")
    pidv, clsv, datav = ctx.int("pid", -(2**31), 2**31 - 1), ctx.int("ioclass", -(2**31), 2**31 - 1), ctx.int("iodata", -(2**31), 2**31 - 1)
    mk = (lambda n, v: z3.BitVec(n, 32)) if ctx.symbolic else (lambda n, v: z3.BitVecVal(v, 32))
    pid, cls, data = mk("pid", pidv), mk("ioclass", clsv), mk("iodata", datav)
    state = {"ints": [lambda w: pid, lambda w: cls, lambda w: data]}

    def ioprio_set(I, st, w, c, which, who, ioprio):
        st.log.append(("ioprio_set", which, who, ioprio))
        return z3.BitVecVal(0, 32)

    def ioprio_get(I, st, w, c, which, who):
        v = z3.BitVec("kernel_ioprio", 32)
        st.pc.append(v >= 0)
        st.log.append(("ioprio_get", which, who, v))
        return v

    def build(I, st, w, c, fmt, *a):
        st.log.append(("build", a))
        return cir.newobj(I, st, "tuple")

    stubs = {"@PyArg_ParseTuple": parse_stub(state), "@ioprio_set": ioprio_set, "@ioprio_get": ioprio_get, "@Py_BuildValue": build, "@PyErr_SetFromErrno": lambda *a: cir.NULL}
    I = cir.Interp(mod, stubs)
    res = I.run("@psutil_proc_ioprio_set", [cir.NULL, cir.NULL])
    ok_pack, n = True, 0
    for st, r in res:
        sets = [x for x in st.log if x[0] == "ioprio_set"]
        for _, which, who, word in sets:
            n += 1
            dom = z3.And(cls >= 0, cls <= 3, data >= 0, data <= 7)
            ok_pack &= I.oblige(st, z3.Implies(dom, z3.And(word == ((cls << 13) | data), which == 1, who == pid)), "ioprio_set: word handed to the kernel is not class<<13|level for (IOPRIO_WHO_PROCESS, pid)")

    def assign(m):
        if m is None:
            return {}
        vals = {d.name(): m[d].as_signed_long() for d in m.decls() if d.name() in ("pid", "ioclass", "iodata")}
        return vals

    bad = [f for f in I.findings if "ioprio_set" in f[0]]
    ctx.external("ioprio-packing", ok_pack and n > 0, assign(bad[0][1]) if bad else {}, detail=bad[0][0] if bad else "")
    state["ints"] = [lambda w: pid]
    I2 = cir.Interp(mod, stubs)
    res = I2.run("@psutil_proc_ioprio_get", [cir.NULL, cir.NULL])
    ok_rt, n = True, 0
    for st, r in res:
        b = [x for x in st.log if x[0] == "build"]
        g = [x for x in st.log if x[0] == "ioprio_get"]
        if b and g:
            n += 1
            (c_out, d_out), word = b[0][1], g[0][3]
            c0, d0 = z3.BitVecs("c0 d0", 32)
            ok_rt &= I2.oblige(st, z3.Implies(z3.And(c0 >= 0, c0 <= 3, d0 >= 0, d0 <= 7, word == ((c0 << 13) | d0)), z3.And(c_out == c0, d_out == d0)), "ioprio_get: (class, level) is not the decoding of the kernel's word")
    ctx.external("ioprio-roundtrip", ok_rt and n > 0, {}, detail="; ".join(f[0] for f in I2.findings))
    for J in (I, I2):
        report(ctx, J, ["memory-in-bounds"], lambda m: assign(m))


# ---- _psutil_posix.c: PSUTIL_STRNCPY sites -----------------------------------------------------------------------------------

def nic_stubs(state):
    def strncpy(I, st, w, c, dst, src, n):
        nn = z3.simplify(n)
        if not z3.is_bv_value(nn):
            raise NotImplementedError("strncpy with symbolic n")
        k = nn.as_long()
        o = st.objs[dst.obj]
        hi = dst.hi if dst.hi is not None else o.size
        I.oblige(st, dst.off + k <= min(hi, o.size), f"strncpy writes {k} bytes at {dst}: out of bounds of its field")
        so = st.objs[src.obj]
        stop = None
        for i in range(k):
            if stop is not None:            # after the source's terminator strncpy pads with NULs and reads nothing more
                I.store(st, cir.Ptr(dst.obj, dst.off + i), 1, z3.BitVecVal(0, 8))
                continue
            if src.off + i >= so.size:
                I.oblige(st, False, f"strncpy reads byte {i} of the source past its object (size {so.size})")
                break
            b = z3.simplify(I.byte_at(st, src.obj, src.off + i))
            I.store(st, cir.Ptr(dst.obj, dst.off + i), 1, b)
            if z3.is_bv_value(b):
                if b.as_long() == 0:
                    stop = i
            elif I.sat(st, b == 0)[0] != "unsat":
                raise NotImplementedError("strncpy source byte that may or may not be NUL (the harness pins name characters to non-zero)")
        st.log.append(("strncpy", k))
        return dst

    def sym32(name):
        def f(I, st, w, c, *a):
            return z3.BitVec(f"{name}{len(st.log)}", 32)
        return f

    def build(I, st, w, c, fmt, *a):
        st.log.append(("build", a))
        return cir.newobj(I, st, "obj")

    def ioctl(I, st, w, c, fd, req, ifr=None, *rest):
        # the kernel fills the request union at offset 16 of struct ifreq; flags are pinned (the 17 flag tests would fork 2^17
        # ways on a symbolic word, which has nothing to do with the name copy checked here)
        if isinstance(ifr, cir.Ptr) and ifr.obj is not None and st.objs[ifr.obj].size >= 20:
            I.store(st, cir.Ptr(ifr.obj, ifr.off + 16), 2, z3.BitVecVal(0x1043, 16))
        return z3.BitVec(f"ioctl{len(st.log)}", 32)

    return {"@PyArg_ParseTuple": parse_stub(state), "@strncpy": strncpy, "@socket": sym32("sock"), "@ioctl": ioctl, "@close": sym32("close"), "@Py_BuildValue": build,
            "@PyErr_SetFromErrno": lambda *a: cir.NULL, "@psutil_PyErr_SetFromOSErrnoWithSyscall": lambda *a: cir.NULL, "@PyList_New": lambda I, st, w, c, n: cir.newobj(I, st, "list"),
            "@append_flag": lambda I, st, w, c, *a: z3.BitVec(f"append{len(st.log)}", 32) if st.log.append(("append",)) is None else None, "@_Py_Dealloc": cir.nop, "@Py_XDECREF": cir.nop}


@harness("C17.nic_name_c", quick=[dict(fn=f, n=n) for f in ("psutil_net_if_mtu", "psutil_net_if_flags") for n in (0, 1, 15, 16, 40)],
         thorough=[dict(fn=f, n=n) for f in ("psutil_net_if_mtu", "psutil_net_if_flags") for n in list(range(0, 21)) + [64, 255]])
def nic_name_c(ctx, fn, n):
    """an interface name of any content and length n never makes the copy into struct ifreq leave its 16-byte field"""
    mod = module("_psutil_posix.c")
    chars = [ctx.int(f"c{i}", 1, 255) for i in range(n)]

    def mkstr(I, st):
        init = {i: (z3.BitVec(f"c{i}", 8) if ctx.symbolic else z3.BitVecVal(chars[i], 8)) for i in range(n)}
        init[n] = z3.BitVecVal(0, 8)
        k = st.new_obj("nic_name", n + 1, init)
        if ctx.symbolic:
            for i in range(n):
                st.pc.append(init[i] != 0)
        return cir.Ptr(k, 0, 0, n + 1)

    state = {"strings": [mkstr]}
    I = cir.Interp(mod, nic_stubs(state))
    res = I.run("@" + fn, [cir.NULL, cir.NULL])
    report(ctx, I, ["memory-in-bounds", "strncpy-in-bounds"], lambda m: model_assignment(m, "c", n))
    ctx.external("nic-paths-completed", bool(res))


@harness("C17.small_c", quick=[dict(fn=f) for f in ("psutil_posix_getpriority", "psutil_posix_setpriority", "psutil_check_pid_range", "psutil_linux_sysinfo")])
def small_c(ctx, fn):
    """argument parsing + one syscall: every load/store in bounds, no signed overflow, for every argument value"""
    rel = {"psutil_posix_getpriority": "_psutil_posix.c", "psutil_posix_setpriority": "_psutil_posix.c", "psutil_check_pid_range": "_psutil_common.c", "psutil_linux_sysinfo": "arch/linux/mem.c"}[fn]
    mod = module(rel)
    state = {}

    def errno_loc(I, st, w, c):
        k = st.new_obj("errno", 4)
        return cir.Ptr(k, 0, 0, 4)

    def sysinfo(I, st, w, c, p):
        o = st.objs[p.obj]
        I.oblige(st, p.off + mod.size_align("%struct.sysinfo")[0] <= o.size, "sysinfo() writes past its buffer")
        return z3.BitVec("sysinfo_ret", 32)

    stubs = {"@PyArg_ParseTuple": parse_stub(state), "@getpriority": lambda I, st, w, c, *a: z3.BitVec("prio", 32), "@setpriority": lambda I, st, w, c, *a: z3.BitVec("sp", 32),
             "@__errno_location": errno_loc, "@PyErr_SetFromErrno": lambda *a: cir.NULL, "@PyErr_SetString": cir.nop, "@sysinfo": sysinfo,
             "@Py_BuildValue": lambda I, st, w, c, fmt, *a: cir.newobj(I, st, "obj"), "@Py_IncRef": cir.nop, "@Py_DecRef": cir.nop}
    I = cir.Interp(mod, stubs)
    res = I.run("@" + fn, [cir.NULL, cir.NULL])
    report(ctx, I, ["memory-in-bounds"], lambda m: {})
    ctx.external("small-paths-completed", bool(res))


# ---- disk.c ---------------------------------------------------------------------------------------------------------------

@harness("C17.partitions_c", quick=[dict(linelen=n) for n in (60, 1500, 4000)], thorough=[dict(linelen=n) for n in (10, 60, 1023, 1024, 1500, 4000, 4094)])
def partitions_c(ctx, linelen):
    """psutil_disk_partitions: each mount entry's device, mount point, type and options reach Python unmodified and in that order,
    for a mount line of `linelen` bytes (glibc's getmntent() handles lines up to 4095 bytes; a caller-supplied buffer must not be smaller)"""
    mod = module("arch/linux/disk.c")
    names = ["fsname", "dir", "type", "opts"]
    state = {"strings": [lambda I, st: _cstr(I, st, "path", b"/proc/self/mounts")], "objs": {}}

    def _cstr(I, st, tag, data):
        k = st.new_obj(tag, len(data) + 1, {i: z3.BitVecVal(b, 8) for i, b in enumerate(data + b"\0")})
        return cir.Ptr(k, 0, 0, len(data) + 1)

    def entry_strings(I, st):
        opts = b"rw," + b"lowerdir=/l:" * ((linelen - 40) // 12) if linelen > 60 else b"rw,relatime"
        return [_cstr(I, st, "fsname", b"/dev/sda1"), _cstr(I, st, "dir", b"/mnt/x y"), _cstr(I, st, "type", b"ext4"), _cstr(I, st, "opts", opts)]

    def fill(I, st, ent):
        ptrs = entry_strings(I, st)
        for i, p_ in enumerate(ptrs):
            I.store(st, cir.Ptr(ent.obj, ent.off + 8 * i), 8, p_)
            state["objs"][names[i]] = p_.obj
        return ent

    def getmntent(I, st, w, c, f):
        n = sum(1 for x in st.log if x[0] == "getmntent")
        st.log.append(("getmntent",))
        if n >= 1:
            return cir.NULL
        k = st.new_obj("mntent", 40)
        return fill(I, st, cir.Ptr(k, 0, 0, 40))

    def getmntent_r(I, st, w, c, f, mntbuf, buf, buflen):
        n = sum(1 for x in st.log if x[0] == "getmntent")
        st.log.append(("getmntent",))
        if n >= 1:
            return cir.NULL
        I.oblige(st, z3.UGT(z3.ZeroExt(64 - buflen.size(), buflen) if buflen.size() < 64 else buflen, z3.BitVecVal(4095, 64)),
                 f"getmntent_r: caller buffer smaller than a mount line glibc itself accepts (4095 bytes): a {linelen}-byte entry is silently truncated")
        o = st.objs[buf.obj]
        I.oblige(st, z3.ULE(z3.ZeroExt(64 - buflen.size(), buflen) if buflen.size() < 64 else buflen, z3.BitVecVal(o.size - buf.off, 64)), "getmntent_r: buflen larger than the buffer: store out of bounds")
        return fill(I, st, mntbuf)

    def decode(I, st, w, c, p_):
        cir.cstring_obligations(I, st, p_, "PyUnicode_DecodeFSDefault")
        o = cir.newobj(I, st, "str")
        st.log.append(("decode", p_.obj, o.obj))
        return o

    def build(I, st, w, c, fmt, *a):
        st.log.append(("build", cir.const_cstr(I, st, fmt), a))
        return cir.newobj(I, st, "tuple")

    stubs = {"@PyList_New": lambda I, st, w, c, n: cir.newobj(I, st, "list"), "@PyArg_ParseTuple": parse_stub(state), "@PyEval_SaveThread": lambda I, st, w, c: cir.newobj(I, st, "tstate"),
             "@PyEval_RestoreThread": cir.nop, "@setmntent": lambda I, st, w, c, *a: cir.newobj(I, st, "FILE"), "@endmntent": lambda I, st, w, c, *a: z3.BitVecVal(1, 32), "@getmntent": getmntent,
             "@getmntent_r": getmntent_r, "@PyUnicode_DecodeFSDefault": decode, "@Py_BuildValue": build, "@PyList_Append": lambda I, st, w, c, *a: z3.BitVecVal(0, 32), "@PyErr_Format": lambda *a: cir.NULL,
             "@PyErr_SetFromErrnoWithFilename": lambda *a: cir.NULL, "@psutil_debug": cir.nop, "@_Py_Dealloc": cir.nop, "@Py_XDECREF": cir.nop, "@Py_DecRef": cir.nop, "@Py_IncRef": cir.nop}
    I = cir.Interp(mod, stubs)
    res = I.run("@psutil_disk_partitions", [cir.NULL, cir.NULL])
    ok, why = bool(res), "no completed path"
    nb = 0
    for st, ret in res:
        decs = {x[2]: x[1] for x in st.log if x[0] == "decode"}
        for b in [x for x in st.log if x[0] == "build"]:
            nb += 1
            args = b[2]
            got = [decs.get(getattr(args[0], "obj", None)), decs.get(getattr(args[1], "obj", None)), getattr(args[2], "obj", None), getattr(args[3], "obj", None)]
            want = [state["objs"][n_] for n_ in names]
            if got != want:
                ok, why = False, f"tuple built from {got}, the entry's strings are {want} (device, mount point, type, options)"
    trunc = [f for f in I.findings if "getmntent_r" in f[0]]
    for f in trunc:
        ctx.external("mount-entry-not-truncated", False, {}, detail=f[0])
    if not trunc:
        ctx.external("mount-entry-not-truncated", True)
    I.findings = [f for f in I.findings if "getmntent_r" not in f[0]]
    report(ctx, I, ["memory-in-bounds", "cstring-within-record"], lambda m: {})
    ctx.external("partitions-tuple-fields", ok and nb > 0, {}, detail=why)


# ---- Python side ---------------------------------------------------------------------------------------------------------------

FSTYPES = ["ext4", "tmpfs", "zfs", "proc"]


@harness("C17.partitions_py", quick=[dict(n=2)], thorough=[dict(n=3)])
def partitions_py(ctx, n):
    """disk_partitions(): each mount entry's device, mount point, type and options; only entries with a device and a disk-backed
    filesystem type unless all=True"""
    k = simk.Kernel(ctx)
    simk.system_files(k)
    nodev = {t: ctx.flag(f"nodev_{t}") for t in FSTYPES}
    k.files["/proc/filesystems"] = "".join(("nodev\t" if nodev[t] else "\t") + t + "\n" for t in FSTYPES)
    ents = []
    for i in range(n):
        if i == 0:       # one symbolic entry, the others concrete
            dev = ctx.choice(f"dev{i}", ["/dev/sda1", "none", "", "tmpfs", "pool/data"])
            fst = ctx.choice(f"fs{i}", FSTYPES)
        else:
            dev, fst = [("/dev/sdb1", "ext4"), ("none", "proc"), ("pool/x", "zfs")][(i - 1) % 3]
        ents.append((dev, f"/mnt/{i}", fst, "rw,relatime"))
    all_ = ctx.flag("all")
    k.files["/etc/mtab"] = ""

    class Cext:
        def __getattr__(self, name):
            return getattr(_pslinux_cext, name)

        @staticmethod
        def disk_partitions(path):
            return list(ents)

    _pslinux_cext = _pslinux.cext
    with k.installed(full=False, extra=[(_pslinux, "cext", Cext())]):
        got = ctx.guard("partitions-filter", psutil.disk_partitions, all=all_)
    disk_backed = {t for t in FSTYPES if not nodev[t]} | ({"zfs"} if nodev["zfs"] else set())
    want = []
    for dev, mp, fst, opts in ents:
        d = "" if dev == "none" else dev
        if not all_ and (not d or fst not in disk_backed):
            continue
        want.append((d, mp, fst, opts))
    ctx.prove([tuple(g)[:4] for g in got] == want, "partitions-filter", detail=f"all={all_} got={[tuple(g)[:4] for g in got]} want={want}")


@harness("C17.users_py")
def users_py(ctx):
    k = simk.Kernel(ctx)
    simk.system_files(k)
    tty = ctx.choice("tty", ["pts/0", "", ":0"])
    host = ctx.choice("host", ["localhost", "10.0.0.5", ""])
    ts, pid = ctx.int("tstamp", 0, 2**40), ctx.int("pid", 0, 2**22)

    class Cext:
        def __getattr__(self, name):
            return getattr(_real, name)

        @staticmethod
        def users():
            return [("alice", tty, host, ts, pid)]

    _real = _pslinux.cext
    with k.installed(full=False, extra=[(_pslinux, "cext", Cext())]):
        got = psutil.users()
    ctx.prove(len(got) == 1 and got[0].name == "alice" and got[0].terminal == (tty or None) and got[0].host == host and ctx.eq(got[0].started, ts) and ctx.eq(got[0].pid, pid), "users-tuple", detail=f"{got}")
