"""C17 — The C extension is memory-safe and decodes OS records faithfully (partial: named leaf functions only).

C side (cir): the LLVM IR of arch/linux/users.c:psutil_users, arch/linux/proc.c:psutil_proc_ioprio_get/set,
_psutil_posix.c:psutil_net_if_mtu/psutil_net_if_flags (PSUTIL_STRNCPY sites), _psutil_posix.c:psutil_posix_getpriority/setpriority,
_psutil_common.c:psutil_check_pid_range, arch/linux/mem.c:psutil_linux_sysinfo is produced with clang from the current tree on every
run and executed symbolically over bit-vectors with a bounds-checked byte memory.
Python side (psym): _pslinux.disk_partitions / users over stub cext records.
"""
import re

import z3

from psv import cir, seq, simk, sym
from psv.run import harness
from psv.simk import _pslinux, psutil

META = dict(
    assumptions=[
        "CPython C-API functions and libc functions are trusted stubs with their documented contracts: PyArg_ParseTuple writes arbitrary values of the C types named by the actual format string; PyUnicode_DecodeFSDefault/strcmp read a C string (to the first NUL) at the pointer they are given; "
        "PyUnicode_DecodeFSDefaultAndSize reads exactly `size` bytes; strnlen(p, n) reads at most n bytes; strncpy(dst, src, n) writes n bytes; getutent returns a pointer to a 384-byte record of arbitrary bytes; syscalls return arbitrary values",
        "the IR is clang 14 -O0 output for x86-64 with the macros setup.py defines on Linux; struct layouts are computed from the IR's own type table",
        "allocation failure (NULL from PyList_New / Py_BuildValue / decode) is modelled as possible where the code checks for it",
    ],
    stubs=["PyArg_ParseTuple, Py_BuildValue, PyList_New/Append, PyUnicode_DecodeFSDefault[AndSize], PyErr_*, strcmp, strnlen, strncpy, getutent/setutent/endutent, socket/ioctl/close, syscall, getpriority/setpriority, sysinfo, __errno_location"],
    bounds=dict(quick=dict(utmp="one login record, all 384 bytes symbolic", ioprio="class and level any 32-bit int (round-trip claimed for class 0..3, level 0..7)", nic_name="lengths 0, 1, 15, 16, 40",
                           mac="hardware address length 0..24 (glibc's sockaddr_ll_max), all bytes symbolic; AF_INET/AF_INET6/other families/NULL", ifaddrs="getifaddrs() list of 0..2 entries, flags and families symbolic, 9 outcome plans of psutil_convert_ipaddr",
                           affinity_set="sequences of 0..2 integers of any 64-bit value", affinity_get="0/1/30 EINVAL answers before success, 1..3 symbolic mask bits", net_if_py="2 interfaces / 2 records, one symbolic"),
                thorough=dict(utmp="one record, all bytes symbolic; two records", ioprio="as quick", nic_name="lengths 0..20, 64, 255", mac="as quick", ifaddrs="0..3 entries, 14 outcome plans", affinity_set="0..3 integers",
                              affinity_get="up to 6 symbolic mask bits", net_if_py="1..3 interfaces / records")),
    outside=["everything inside CPython and libc (getmntent, getifaddrs, getnameinfo)", "the sanitizer-run formulation of the statement (a different technique)", "the parsing glibc's getmntent() does (escapes, field splitting): only the buffer-size contract of getmntent_r and the hand-over of the four strings are checked",              "wrong argument *types* (rejected inside PyArg_ParseTuple, which is trusted)"],
    extra=dict(c_functions_encoded=["arch/linux/users.c:psutil_users", "arch/linux/proc.c:psutil_proc_ioprio_get", "arch/linux/proc.c:psutil_proc_ioprio_set", "_psutil_posix.c:psutil_net_if_mtu",
                                    "_psutil_posix.c:psutil_net_if_flags", "_psutil_posix.c:psutil_posix_getpriority", "_psutil_posix.c:psutil_posix_setpriority", "_psutil_common.c:psutil_check_pid_range",
                                    "arch/linux/mem.c:psutil_linux_sysinfo", "arch/linux/disk.c:psutil_disk_partitions", "_psutil_posix.c:psutil_convert_ipaddr", "_psutil_posix.c:psutil_net_if_addrs",
                                    "arch/linux/proc.c:psutil_proc_cpu_affinity_get", "arch/linux/proc.c:psutil_proc_cpu_affinity_set", "arch/linux/net.c:psutil_net_if_duplex_speed", "arch/linux/net.c:psutil_ethtool_cmd_speed"],
               ir="clang -S -emit-llvm -O0 -Xclang -disable-O0-optnone with the Linux macros of setup.py, regenerated from /repo on every run"),
    labels=["memory-in-bounds", "cstring-within-record", "string-within-field", "users-fields", "ioprio-packing", "ioprio-roundtrip", "strncpy-in-bounds", "partitions-filter", "users-tuple", "net_if_stats", "net_if_addrs", "address-text", "ifaddrs-tuples", "no-uninitialised-read"],
)

_IR = {}


def module(rel):
    if rel not in _IR:
        _IR[rel] = cir.Module(cir.lower(rel))
    return _IR[rel]


def classify(what):
    if "C string read runs past" in what:
        return "cstring-within-record"
    if "exceeds its field" in what:
        return "string-within-field"
    if what.startswith("users: the string decoded"):
        return "string-cut-at-first-nul"
    if "overflow" in what:
        return "no-signed-overflow"
    if "does not terminate" in what:
        return "loops-terminate"
    if "strncpy" in what:
        return "strncpy-in-bounds"
    return "memory-in-bounds"


def model_assignment(m, prefix, n):
    out = {}
    if m is None:
        return out
    vals = {d.name(): m[d] for d in m.decls()}
    for i in range(n):
        v = vals.get(f"{prefix}{i}")
        out[f"{prefix}{i}"] = v.as_long() if v is not None else 0
    return out


def report(ctx, I, labels_reached, assign_fn, real=None):
    """real: callable returning a sentence about what the COMPILED extension does on the same input; evaluated only in the concrete
    replay of a counterexample (never on the unchanged tree, where nothing fails)"""
    seen = set()
    suffix = None
    for what, m, log in I.findings:
        lab = classify(what)
        if (lab, what) in seen:
            continue
        seen.add((lab, what))
        if real is not None and not ctx.symbolic and suffix is None:
            try:
                suffix = " || compiled extension: " + real()
            except Exception as e:  # noqa: BLE001
                suffix = f" || compiled extension: replay not possible ({type(e).__name__}: {e})"
        ctx.external(lab, False, assign_fn(m), detail=what + (suffix or ""))
    for lab in labels_reached:
        if not any(classify(w) == lab for w, _, _ in I.findings):
            ctx.external(lab, True)
    ctx.add_stats(queries=I.queries, solver_s=I.solver_s, decisions=I.branches, paths=max(I.paths - 1, 0))
    if I.unknown:
        ctx.add_stats(inconclusive=I.unknown)


# ---- users.c ----------------------------------------------------------------------------------------------------------------

def users_stubs(mod, recs, state):
    def PyList_New(I, st, w, c, n):
        return cir.newobj(I, st, "list")

    def getutent(I, st, w, c):
        n = sum(1 for x in st.log if x[0] == "getutent")
        st.log.append(("getutent",))
        if n >= len(recs):
            return cir.NULL
        k = st.new_obj("utmp", 384, dict(recs[n]))
        state["rec_objs"].append(k)
        return cir.Ptr(k, 0, 0, 384)

    def decode(I, st, w, c, p):
        cir.cstring_obligations(I, st, p, "PyUnicode_DecodeFSDefault")
        st.log.append(("decode", p.obj, p.off, None))
        return cir.newobj(I, st, "str")

    def decode_n(I, st, w, c, p, n):
        o = st.objs[p.obj]
        hi = p.hi if p.hi is not None else o.size
        width = hi - p.off
        I.oblige(st, z3.ULE(n, z3.BitVecVal(width, 64)), f"PyUnicode_DecodeFSDefaultAndSize: decoded string exceeds its field [{p.lo},{p.hi}) of {p.obj.split('#')[0]}")
        if p.obj.startswith("utmp"):
            # fidelity: what is decoded is the field's C string -- cut at the first NUL, or at the field width when there is none
            bs = [I.byte_at(st, p.obj, p.off + i) for i in range(width)]
            I.oblige(st, z3.And(*[z3.Implies(z3.UGT(n, i), b != 0) for i, b in enumerate(bs)], *[z3.Implies(n == i, b == 0) for i, b in enumerate(bs)]),
                     f"users: the string decoded from field [{p.lo},{p.hi}) is not the field's text up to its first NUL (or its full width)")
        st.log.append(("decode", p.obj, p.off, n))
        return cir.newobj(I, st, "str")

    def strnlen(I, st, w, c, p, n):
        nn = z3.simplify(n)
        if not z3.is_bv_value(nn):
            raise NotImplementedError("strnlen with symbolic bound")
        nmax = nn.as_long()
        o = st.objs[p.obj]
        I.oblige(st, p.off + nmax <= o.size, f"strnlen reads up to {nmax} bytes past {p}: C string read runs past the end of object {p.obj.split('#')[0]}")
        L = z3.BitVec(f"strnlen{len(st.log)}", 64)
        bs = [I.byte_at(st, p.obj, p.off + i) for i in range(min(nmax, o.size - p.off))]
        st.pc.append(z3.ULE(L, nmax))
        for i, b in enumerate(bs):
            st.pc.append(z3.Implies(z3.UGT(L, i), b != 0))
            st.pc.append(z3.Implies(L == i, b == 0))
        st.log.append(("strnlen", p.obj, p.off, nmax))
        return L

    def strcmp(I, st, w, c, a, b):
        lit = cir.const_cstr(I, st, b)
        if lit is None:
            raise NotImplementedError("strcmp with two non-constant strings")
        want = list(lit.encode("latin-1")) + [0]
        o = st.objs[a.obj]
        # strcmp against a constant reads at most len(constant)+1 bytes of the other string
        I.oblige(st, a.off + len(want) <= o.size, "strcmp: load out of bounds")
        eq = z3.And(*[I.byte_at(st, a.obj, a.off + i) == want[i] for i in range(len(want))])
        st.log.append(("strcmp", a.obj, a.off, lit))
        return z3.If(eq, z3.BitVecVal(0, 32), z3.BitVecVal(1, 32))

    def Py_BuildValue(I, st, w, c, fmt, *a):
        st.log.append(("build", cir.const_cstr(I, st, fmt), a))
        return cir.newobj(I, st, "tuple")

    def PyList_Append(I, st, w, c, l, x):
        return z3.BitVecVal(0, 32)

    def strncmp(I, st, w, c, a, b, n):
        lit = cir.const_cstr(I, st, b)
        nn = z3.simplify(n)
        if lit is None or not z3.is_bv_value(nn):
            raise NotImplementedError("strncmp with a non-constant string or length")
        want = (list(lit.encode("latin-1")) + [0])[:nn.as_long()]      # compares at most n bytes, stops after a NUL
        o = st.objs[a.obj]
        I.oblige(st, a.off + len(want) <= o.size, "strncmp: load out of bounds")
        eq = z3.And(*[I.byte_at(st, a.obj, a.off + i) == want[i] for i in range(len(want))]) if want else z3.BoolVal(True)
        st.log.append(("strcmp", a.obj, a.off, lit))
        return z3.If(eq, z3.BitVecVal(0, 32), z3.BitVecVal(1, 32))

    return {"@strncmp": strncmp, "@strlen": lambda I, st, w, c, p_: z3.BitVecVal(len(cir.const_cstr(I, st, p_)), 64), "@PyList_New": PyList_New, "@setutent": cir.nop, "@endutent": cir.nop, "@getutent": getutent, "@PyUnicode_DecodeFSDefault": decode,
            "@PyUnicode_DecodeFSDefaultAndSize": decode_n, "@strnlen": strnlen, "@strcmp": strcmp, "@Py_BuildValue": Py_BuildValue, "@PyList_Append": PyList_Append,
            "@_Py_Dealloc": cir.nop, "@Py_XDECREF": cir.nop, "@Py_DecRef": cir.nop, "@Py_IncRef": cir.nop}


@harness("C17.users_c", quick=[dict(nrec=1)], thorough=[dict(nrec=1), dict(nrec=2)], validate=True)
def users_c(ctx, nrec):
    mod = module("arch/linux/users.c")
    concrete = [[ctx.int(f"r{r}b{i}", 0, 255) for i in range(384)] for r in range(nrec)]
    recs = []
    for r in range(nrec):
        if ctx.symbolic:
            recs.append({i: z3.BitVec(f"r{r}b{i}", 8) for i in range(384)})
        else:
            recs.append({i: z3.BitVecVal(concrete[r][i], 8) for i in range(384)})
    state = {"rec_objs": []}
    I = cir.Interp(mod, users_stubs(mod, recs, state))
    I.max_paths, I.paths_after_finding = 3000, 8
    res = I.run("@psutil_users", [cir.NULL, cir.NULL])

    def assign(m):
        out = {}
        for r in range(nrec):
            out.update(model_assignment(m, f"r{r}b", 384))
        return out

    # decoding fidelity on every completed path: which fields were decoded, what was passed through
    off = {name: mod.field("%struct.utmp", idx)[0] for name, idx in (("ut_type", 0), ("ut_pid", 1), ("ut_line", 2), ("ut_user", 4), ("ut_host", 5), ("ut_tv", 8))}
    fields_ok = True
    why = ""
    for st, ret in res:
        builds = [x for x in st.log if x[0] == "build"]
        decs = [x for x in st.log if x[0] == "decode"]
        for bi, b in enumerate(builds):
            d3 = decs[3 * bi: 3 * bi + 3]
            if len(d3) != 3:
                fields_ok, why = False, "a login tuple is not built from three decoded strings"
                break
            (_, o1, f1, _), (_, o2, f2, _), (_, o3, f3, _) = d3
            if f1 != off["ut_user"] or f2 != off["ut_line"]:
                fields_ok, why = False, f"user/terminal decoded from offsets {f1}/{f2}, expected {off['ut_user']}/{off['ut_line']}"
            host_is_literal = o3.startswith("G@")
            cmp = [x for x in st.log if x[0] == "strcmp" and x[1] == o1]
            if not host_is_literal and f3 != off["ut_host"]:
                fields_ok, why = False, f"host decoded from offset {f3}, expected {off['ut_host']}"
            # tv_sec and pid passed through: arguments 3 and 4 of the tuple
            args = b[2]
            tv = I.load(st, cir.Ptr(o1, off["ut_tv"]), 4, False)
            pid = I.load(st, cir.Ptr(o1, off["ut_pid"]), 4, False)
            a_tv, a_pid = args[3], args[4]
            okv = isinstance(a_tv, tuple) and a_tv[0] == "double_of" and I.oblige(st, a_tv[1] == z3.SignExt(a_tv[1].size() - 32, tv) if a_tv[1].size() > 32 else a_tv[1] == tv, "users: tv_sec not passed through")
            okp = I.oblige(st, a_pid == pid, "users: pid not passed through")
            if not (okv and okp):
                fields_ok, why = False, "tstamp/pid are not the record's ut_tv.tv_sec / ut_pid"
            # ':0' / ':0.0' => localhost
            host = [I.byte_at(st, o1, off["ut_host"] + i) for i in range(5)]
            is0 = z3.Or(z3.And(host[0] == 58, host[1] == 48, host[2] == 0), z3.And(host[0] == 58, host[1] == 48, host[2] == 46, host[3] == 48, host[4] == 0))
            if not I.oblige(st, is0 if host_is_literal else z3.Not(is0), "users: localhost substitution does not follow ':0' / ':0.0'"):
                fields_ok, why = False, "':0'/':0.0' shown as localhost rule"
        # only USER_PROCESS (7) records produce a tuple
        for k in state["rec_objs"]:
            if k in st.objs:
                pass
    def real():
        import os as _os
        import struct as _struct

        from psv import realbuild

        d = realbuild.built()
        path = _os.path.join(d, "utmp.replay")
        with open(path, "wb") as f:
            for r in range(nrec):
                f.write(bytes(concrete[r]))
        rc, out, err = realbuild.run(f"import ctypes, json, psutil\nctypes.CDLL(None).utmpname({path.encode()!r})\nprint(json.dumps([[u.name, u.terminal, u.host, u.started, u.pid] for u in psutil.users()]))")
        if rc != 0:
            return f"users() died with exit status {rc}: {err.strip()[-200:]}"
        import json as _json

        got = _json.loads(out.strip().splitlines()[-1])
        want = []
        for r in range(nrec):
            b = bytes(concrete[r])
            if _struct.unpack_from("<h", b, off["ut_type"])[0] != 7:
                continue
            cut = lambda x: _os.fsdecode(x.split(b"\0", 1)[0])           # noqa: E731
            host = cut(b[off["ut_host"]:off["ut_host"] + 256])
            want.append([cut(b[off["ut_user"]:off["ut_user"] + 32]), cut(b[off["ut_line"]:off["ut_line"] + 32]) or None, "localhost" if host in (":0", ":0.0") else host,
                         float(_struct.unpack_from("<i", b, off["ut_tv"])[0]), _struct.unpack_from("<i", b, off["ut_pid"])[0]])
        if got == want:
            return "users() returns the record's fields correctly on this input (the fault is not observable in the result: C-level undefined behaviour only)"
        return f"REPRODUCED: users() returns {got!r}, the record holds {want!r}"

    report(ctx, I, ["memory-in-bounds", "cstring-within-record", "string-within-field", "string-cut-at-first-nul"], assign, real=real)
    ctx.external("users-fields", (fields_ok and bool(res)) or I.path_bound_hit, detail=why)


# ---- proc.c: ioprio ----------------------------------------------------------------------------------------------------------

def parse_stub(state):
    def PyArg_ParseTuple(I, st, w, c, args, fmt, *outs):
        f = cir.const_cstr(I, st, fmt)
        f = f.split(":")[0]
        if len(f) != len(outs):
            raise NotImplementedError(f"format {f!r} vs {len(outs)} outputs")
        vals = []
        for ch, o in zip(f, outs):
            if ch == "s":
                v = state["strings"].pop(0)(I, st)
                I.store(st, o, 8, v)
            else:
                wdt = {"i": 32, "l": 64, "L": 64, "I": 32}[ch]
                v = state["ints"].pop(0)(wdt) if state.get("ints") else z3.BitVec(f"arg{len(st.log)}_{len(vals)}", wdt)
                I.store(st, o, wdt // 8, v)
            vals.append(v)
        st.log.append(("parse", f, vals))
        return z3.BitVecVal(1, 32)
    return PyArg_ParseTuple


@harness("C17.ioprio_c")
def ioprio_c(ctx):
    """the word handed to the kernel is class<<13 | level for (IOPRIO_WHO_PROCESS, pid); get(set(c, d)) = (c, d)"""
    mod = module("arch/linux/proc.c")
    pidv, clsv, datav = ctx.int("pid", -(2**31), 2**31 - 1), ctx.int("ioclass", -(2**31), 2**31 - 1), ctx.int("iodata", -(2**31), 2**31 - 1)
    mk = (lambda n, v: z3.BitVec(n, 32)) if ctx.symbolic else (lambda n, v: z3.BitVecVal(v, 32))
    pid, cls, data = mk("pid", pidv), mk("ioclass", clsv), mk("iodata", datav)
    state = {"ints": [lambda w: pid, lambda w: cls, lambda w: data]}

    def ioprio_set(I, st, w, c, which, who, ioprio):
        st.log.append(("ioprio_set", which, who, ioprio))
        return z3.BitVecVal(0, 32)

    def ioprio_get(I, st, w, c, which, who):
        v = z3.BitVec("kernel_ioprio", 32)
        st.pc.append(v >= 0)
        st.log.append(("ioprio_get", which, who, v))
        return v

    def build(I, st, w, c, fmt, *a):
        st.log.append(("build", a))
        return cir.newobj(I, st, "tuple")

    stubs = {"@PyArg_ParseTuple": parse_stub(state), "@ioprio_set": ioprio_set, "@ioprio_get": ioprio_get, "@Py_BuildValue": build, "@PyErr_SetFromErrno": lambda *a: cir.NULL}
    I = cir.Interp(mod, stubs)
    res = I.run("@psutil_proc_ioprio_set", [cir.NULL, cir.NULL])
    ok_pack, n = True, 0
    for st, r in res:
        sets = [x for x in st.log if x[0] == "ioprio_set"]
        for _, which, who, word in sets:
            n += 1
            dom = z3.And(cls >= 0, cls <= 3, data >= 0, data <= 7)
            ok_pack &= I.oblige(st, z3.Implies(dom, z3.And(word == ((cls << 13) | data), which == 1, who == pid)), "ioprio_set: word handed to the kernel is not class<<13|level for (IOPRIO_WHO_PROCESS, pid)")

    def assign(m):
        if m is None:
            return {}
        vals = {d.name(): m[d].as_signed_long() for d in m.decls() if d.name() in ("pid", "ioclass", "iodata")}
        return vals

    bad = [f for f in I.findings if "ioprio_set" in f[0]]
    ctx.external("ioprio-packing", ok_pack and n > 0, assign(bad[0][1]) if bad else {}, detail=bad[0][0] if bad else "")
    state["ints"] = [lambda w: pid]
    I2 = cir.Interp(mod, stubs)
    res = I2.run("@psutil_proc_ioprio_get", [cir.NULL, cir.NULL])
    ok_rt, n = True, 0
    for st, r in res:
        b = [x for x in st.log if x[0] == "build"]
        g = [x for x in st.log if x[0] == "ioprio_get"]
        if b and g:
            n += 1
            (c_out, d_out), word = b[0][1], g[0][3]
            c0, d0 = z3.BitVecs("c0 d0", 32)
            ok_rt &= I2.oblige(st, z3.Implies(z3.And(c0 >= 0, c0 <= 3, d0 >= 0, d0 <= 7, word == ((c0 << 13) | d0)), z3.And(c_out == c0, d_out == d0)), "ioprio_get: (class, level) is not the decoding of the kernel's word")
    ctx.external("ioprio-roundtrip", ok_rt and n > 0, {}, detail="; ".join(f[0] for f in I2.findings))
    for J in (I, I2):
        report(ctx, J, ["memory-in-bounds"], lambda m: assign(m))


# ---- _psutil_posix.c: PSUTIL_STRNCPY sites -----------------------------------------------------------------------------------

def nic_stubs(state):
    def strncpy(I, st, w, c, dst, src, n):
        nn = z3.simplify(n)
        if not z3.is_bv_value(nn):
            raise NotImplementedError("strncpy with symbolic n")
        k = nn.as_long()
        o = st.objs[dst.obj]
        hi = dst.hi if dst.hi is not None else o.size
        I.oblige(st, dst.off + k <= min(hi, o.size), f"strncpy writes {k} bytes at {dst}: out of bounds of its field")
        so = st.objs[src.obj]
        stop = None
        for i in range(k):
            if stop is not None:            # after the source's terminator strncpy pads with NULs and reads nothing more
                I.store(st, cir.Ptr(dst.obj, dst.off + i), 1, z3.BitVecVal(0, 8))
                continue
            if src.off + i >= so.size:
                I.oblige(st, False, f"strncpy reads byte {i} of the source past its object (size {so.size})")
                break
            b = z3.simplify(I.byte_at(st, src.obj, src.off + i))
            I.store(st, cir.Ptr(dst.obj, dst.off + i), 1, b)
            if z3.is_bv_value(b):
                if b.as_long() == 0:
                    stop = i
            elif I.sat(st, b == 0)[0] != "unsat":
                raise NotImplementedError("strncpy source byte that may or may not be NUL (the harness pins name characters to non-zero)")
        st.log.append(("strncpy", k))
        return dst

    def sym32(name):
        def f(I, st, w, c, *a):
            return z3.BitVec(f"{name}{len(st.log)}", 32)
        return f

    def build(I, st, w, c, fmt, *a):
        st.log.append(("build", a))
        return cir.newobj(I, st, "obj")

    def ioctl(I, st, w, c, fd, req, ifr=None, *rest):
        # the kernel fills the request union at offset 16 of struct ifreq; flags are pinned (the 17 flag tests would fork 2^17
        # ways on a symbolic word, which has nothing to do with the name copy checked here)
        st.log.append(("ioctl_fd", fd))
        if isinstance(ifr, cir.Ptr) and ifr.obj is not None and st.objs[ifr.obj].size >= 20:
            st.log.append(("ifr_name", [I.byte_at(st, ifr.obj, ifr.off + i) for i in range(16)]))      # what the kernel is asked about
            I.store(st, cir.Ptr(ifr.obj, ifr.off + 16), 2, z3.BitVecVal(0x1043, 16))
        return z3.BitVec(f"ioctl{len(st.log)}", 32)

    def socket_(I, st, w, c, *a):
        fd = z3.BitVec(f"sock{len(st.log)}", 32)
        st.log.append(("socket", fd))
        return fd

    def close_(I, st, w, c, fd):
        st.log.append(("close", fd))
        return z3.BitVec(f"close{len(st.log)}", 32)

    return {"@PyArg_ParseTuple": parse_stub(state), "@strncpy": strncpy, "@socket": socket_, "@ioctl": ioctl, "@close": close_, "@Py_BuildValue": build,
            "@fcntl": lambda I, st, w, c, *a: z3.BitVecVal(0, 32), "@fcntl64": lambda I, st, w, c, *a: z3.BitVecVal(0, 32),
            "@llvm.memset.p0i8.i64": lambda I, st, w, c, *a: _memset(I, st, w, c, *a),
            "@PyErr_SetFromErrno": lambda *a: cir.NULL, "@psutil_PyErr_SetFromOSErrnoWithSyscall": lambda *a: cir.NULL, "@PyList_New": lambda I, st, w, c, n: cir.newobj(I, st, "list"),
            "@append_flag": lambda I, st, w, c, *a: z3.BitVec(f"append{len(st.log)}", 32) if st.log.append(("append",)) is None else None, "@_Py_Dealloc": cir.nop, "@Py_XDECREF": cir.nop}


@harness("C17.nic_name_c", quick=[dict(fn=f, n=n) for f in ("psutil_net_if_mtu", "psutil_net_if_flags") for n in (0, 1, 15, 16, 40)],
         thorough=[dict(fn=f, n=n) for f in ("psutil_net_if_mtu", "psutil_net_if_flags") for n in list(range(0, 21)) + [64, 255]])
def nic_name_c(ctx, fn, n):
    """an interface name of any content and length n never makes the copy into struct ifreq leave its 16-byte field"""
    mod = module("_psutil_posix.c")
    chars = [ctx.int(f"c{i}", 1, 255) for i in range(n)]

    def mkstr(I, st):
        init = {i: (z3.BitVec(f"c{i}", 8) if ctx.symbolic else z3.BitVecVal(chars[i], 8)) for i in range(n)}
        init[n] = z3.BitVecVal(0, 8)
        k = st.new_obj("nic_name", n + 1, init)
        if ctx.symbolic:
            for i in range(n):
                st.pc.append(init[i] != 0)
        return cir.Ptr(k, 0, 0, n + 1)

    state = {"strings": [mkstr]}
    I = cir.Interp(mod, nic_stubs(state))
    res = I.run("@" + fn, [cir.NULL, cir.NULL])
    # fidelity: the name the kernel is asked about is the interface's name (interface names are at most IFNAMSIZ-1 = 15 bytes long;
    # longer strings cannot name an interface and only have to be copied safely)
    ok_name, bad_st = True, None
    if n <= 15:
        for st, ret in res:
            for ent in [x for x in st.log if x[0] == "ifr_name"]:
                want = [z3.BitVec(f"c{i}", 8) if ctx.symbolic else z3.BitVecVal(chars[i], 8) for i in range(n)] + [z3.BitVecVal(0, 8)]
                if not I.oblige(st, z3.And(*[ent[1][i] == want[i] for i in range(n + 1)]), "nic-name: the name handed to the kernel in ifr_name is not the interface name"):
                    ok_name, bad_st = False, st
    # the kernel is asked through a descriptor THIS call opened, and that descriptor is closed again before the call returns (one kept
    # from an earlier call may belong to another network namespace by now, or have been closed by the program)
    ok_fd = True
    for st, ret in res:
        socks = [x[1] for x in st.log if x[0] == "socket"]
        closes = [x[1] for x in st.log if x[0] == "close"]
        for fd in [x[1] for x in st.log if x[0] == "ioctl_fd"]:
            if not I.oblige(st, z3.Or(*[fd == s_ for s_ in socks]) if socks else z3.BoolVal(False), "descriptor: ioctl() issued on a descriptor that socket() did not return during this call"):
                ok_fd = False
        for s_ in socks:
            if not I.oblige(st, z3.Implies(s_ != -1, z3.Or(*[c_ == s_ for c_ in closes]) if closes else z3.BoolVal(False)), "descriptor: a socket opened by the call is still open when it returns"):
                ok_fd = False
    dfs = [f for f in I.findings if f[0].startswith("descriptor:")]
    ctx.external("descriptor-opened-and-closed-by-the-call", ok_fd and not dfs, model_assignment(dfs[0][1], "c", n) if dfs else {}, detail=dfs[0][0] if dfs else "")
    I.findings = [f for f in I.findings if f not in dfs]
    fid = [f for f in I.findings if f[0].startswith("nic-name:")]
    ctx.external("nic-name-passed-on", ok_name, model_assignment(fid[0][1], "c", n) if fid else {}, detail=fid[0][0] if fid else "")
    I.findings = [f for f in I.findings if f not in fid]
    report(ctx, I, ["memory-in-bounds", "strncpy-in-bounds"], lambda m: model_assignment(m, "c", n))
    ctx.external("nic-paths-completed", bool(res))


@harness("C17.duplex_speed_c", quick=[dict(n=n, fails=f) for n in (4, 16, 40) for f in (False, True)], thorough=[dict(n=n, fails=f) for n in (0, 1, 15, 16, 17, 64) for f in (False, True)])
def duplex_speed_c(ctx, n, fails):
    """psutil_net_if_duplex_speed (+ the inlined-by-hand psutil_ethtool_cmd_speed, which is executed, not stubbed): the name copy stays
    inside ifr_name, the ethtool buffer handed to the kernel is the whole zeroed struct, and (duplex, speed) are the kernel's duplex byte
    and speed_hi:speed word (0 when unknown or above INT_MAX); EOPNOTSUPP/EINVAL give (DUPLEX_UNKNOWN, 0), other errors raise"""
    mod = module("arch/linux/net.c")
    chars = [ctx.int(f"c{i}", 1, 255) for i in range(n)]
    lo_, hi_, dup_, err_ = ctx.int("speed", 0, 65535), ctx.int("speed_hi", 0, 65535), ctx.int("duplex", 0, 255), ctx.int("errno", 1, 133)
    mk = (lambda nm, v, w: z3.BitVec(nm, w)) if ctx.symbolic else (lambda nm, v, w: z3.BitVecVal(v, w))
    lo, hi, dup, err = mk("speed", lo_, 16), mk("speed_hi", hi_, 16), mk("duplex", dup_, 8), mk("errno", err_, 32)

    def mkstr(I, st):
        init = {i: (z3.BitVec(f"c{i}", 8) if ctx.symbolic else z3.BitVecVal(chars[i], 8)) for i in range(n)}
        init[n] = z3.BitVecVal(0, 8)
        k_ = st.new_obj("nic_name", n + 1, init)
        if ctx.symbolic:
            for i in range(n):
                st.pc.append(init[i] != 0)
        return cir.Ptr(k_, 0, 0, n + 1)

    state = {"strings": [mkstr]}
    stubs = nic_stubs(state)

    def ioctl(I, st, w, c, fd, req, ifr=None, *rest):
        data = I.load(st, cir.Ptr(ifr.obj, ifr.off + 16), 8, True)          # ifr.ifr_data
        o = st.objs[data.obj]
        I.oblige(st, data.off + 44 <= o.size, "ioctl(SIOCETHTOOL): the kernel writes a struct ethtool_cmd (44 bytes): store out of bounds of the buffer handed over")
        cmd = I.load(st, cir.Ptr(data.obj, data.off), 4, False)
        st.log.append(("ethtool", req, cmd, [z3.simplify(I.byte_at(st, data.obj, data.off + i)) for i in range(4, 44)]))
        if fails:
            return z3.BitVecVal(-1, 32)
        I.store(st, cir.Ptr(data.obj, data.off + 12), 2, lo)
        I.store(st, cir.Ptr(data.obj, data.off + 14), 1, dup)
        I.store(st, cir.Ptr(data.obj, data.off + 28), 2, hi)
        return z3.BitVecVal(0, 32)

    def errno_loc(I, st, w, c):
        k_ = st.new_obj("errno", 4)
        st.objs[k_].cells[0] = (4, err)
        return cir.Ptr(k_, 0, 0, 4)

    def build(I, st, w, c, fmt, *a):
        st.log.append(("build", cir.const_cstr(I, st, fmt), a))
        return cir.newobj(I, st, "list")

    def oserr(I, st, w, c, *a):
        st.log.append(("raise",))
        return cir.NULL

    stubs.update({"@ioctl": ioctl, "@__errno_location": errno_loc, "@llvm.memset.p0i8.i64": _memset, "@Py_BuildValue": build, "@psutil_PyErr_SetFromOSErrnoWithSyscall": oserr,
                  "@socket": lambda I, st, w, c, *a: z3.BitVecVal(5, 32), "@close": lambda I, st, w, c, *a: z3.BitVecVal(0, 32)})
    I = cir.Interp(mod, stubs)
    st0 = cir.State()
    if ctx.symbolic:
        st0.pc.append(z3.And(err >= 1, err <= 133))
    res = I.run("@psutil_net_if_duplex_speed", [cir.NULL, cir.NULL], st=st0)
    ok, why, bad_st = bool(res), "no completed path", None
    EOPNOTSUPP, EINVAL = 95, 22
    for st, ret in res:
        eth = [x for x in st.log if x[0] == "ethtool"]
        builds = [x for x in st.log if x[0] == "build"]
        raised = isinstance(ret, cir.Ptr) and ret.obj is None
        if len(eth) != 1 or not I.oblige(st, z3.And(eth[0][1] == 0x8946, eth[0][2] == 1), "duplex_speed: the request is not SIOCETHTOOL / ETHTOOL_GSET") or any(not (z3.is_bv_value(b) and b.as_long() == 0) for b in eth[0][3]):
            ok, why, bad_st = False, "the ethtool buffer is not a zeroed ETHTOOL_GSET request", st
            continue
        if not fails:
            word = z3.Concat(hi, lo)
            want_speed = z3.If(z3.Or(word == 0xFFFFFFFF, z3.UGT(word, 0x7FFFFFFF)), z3.BitVecVal(0, 32), word)
            if len(builds) != 1 or raised or not I.oblige(st, z3.And(builds[0][2][0] == z3.ZeroExt(24, dup), builds[0][2][1] == want_speed), "duplex_speed: (duplex, speed) are not the kernel's duplex byte and speed_hi:speed word"):
                ok, why, bad_st = False, "(duplex, speed) differ from the ethtool record", st
        else:
            soft = I.sat(st, z3.Or(err == EOPNOTSUPP, err == EINVAL))[0] == "sat" and I.sat(st, z3.Not(z3.Or(err == EOPNOTSUPP, err == EINVAL)))[0] == "unsat"
            if soft:
                if len(builds) != 1 or raised or not I.oblige(st, z3.And(builds[0][2][0] == 0xFF, builds[0][2][1] == 0), "duplex_speed: EOPNOTSUPP/EINVAL must give (DUPLEX_UNKNOWN, 0)"):
                    ok, why, bad_st = False, "EOPNOTSUPP/EINVAL must give (DUPLEX_UNKNOWN, 0)", st
            elif builds or not raised:
                ok, why, bad_st = False, "any other ioctl error must raise", st

    def assign(m):
        out = model_assignment(m, "c", n)
        if m is not None:
            vals = {d.name(): m[d] for d in m.decls()}
            for nm in ("speed", "speed_hi", "duplex", "errno"):
                if nm in vals:
                    out[nm] = vals[nm].as_long()
        return out

    fid = [f for f in I.findings if f[0].startswith("duplex_speed:")]
    ctx.external("duplex-speed", ok and not fid, assign(fid[0][1]) if fid else assign(I.sat(bad_st)[1]) if bad_st is not None else {}, detail=fid[0][0] if fid else why)
    I.findings = [f for f in I.findings if f not in fid]
    report(ctx, I, ["memory-in-bounds", "strncpy-in-bounds"], assign)


@harness("C17.small_c", quick=[dict(fn=f) for f in ("psutil_posix_getpriority", "psutil_posix_setpriority", "psutil_check_pid_range", "psutil_linux_sysinfo")])
def small_c(ctx, fn):
    """argument parsing + one syscall: every load/store in bounds, no signed overflow, for every argument value"""
    rel = {"psutil_posix_getpriority": "_psutil_posix.c", "psutil_posix_setpriority": "_psutil_posix.c", "psutil_check_pid_range": "_psutil_common.c", "psutil_linux_sysinfo": "arch/linux/mem.c"}[fn]
    mod = module(rel)
    state = {}

    def errno_loc(I, st, w, c):
        k = st.new_obj("errno", 4)
        return cir.Ptr(k, 0, 0, 4)

    def sysinfo(I, st, w, c, p):
        o = st.objs[p.obj]
        I.oblige(st, p.off + mod.size_align("%struct.sysinfo")[0] <= o.size, "sysinfo() writes past its buffer")
        return z3.BitVec("sysinfo_ret", 32)

    stubs = {"@PyArg_ParseTuple": parse_stub(state), "@getpriority": lambda I, st, w, c, *a: z3.BitVec("prio", 32), "@setpriority": lambda I, st, w, c, *a: z3.BitVec("sp", 32),
             "@__errno_location": errno_loc, "@PyErr_SetFromErrno": lambda *a: cir.NULL, "@PyErr_SetString": cir.nop, "@sysinfo": sysinfo,
             "@Py_BuildValue": lambda I, st, w, c, fmt, *a: cir.newobj(I, st, "obj"), "@Py_IncRef": cir.nop, "@Py_DecRef": cir.nop}
    I = cir.Interp(mod, stubs)
    res = I.run("@" + fn, [cir.NULL, cir.NULL])
    report(ctx, I, ["memory-in-bounds"], lambda m: {})
    ctx.external("small-paths-completed", bool(res))


# ---- proc.c: CPU affinity ------------------------------------------------------------------------------------------------------

def _memset(I, st, w, c, dst, val, n, *rest):
    nn = z3.simplify(n)
    if not z3.is_bv_value(nn):
        raise NotImplementedError("memset with symbolic length")
    o = st.objs[dst.obj]
    I.oblige(st, dst.off + nn.as_long() <= o.size, f"memset writes {nn.as_long()} bytes at {dst}: store out of bounds")
    for i in range(min(nn.as_long(), o.size - dst.off)):
        I.store(st, cir.Ptr(dst.obj, dst.off + i), 1, val)
    return None


@harness("C17.affinity_set_c", quick=[dict(n=n) for n in (0, 1, 2)], thorough=[dict(n=n) for n in (0, 1, 2, 3)])
def affinity_set_c(ctx, n):
    """psutil_proc_cpu_affinity_set: for a sequence of n integers of ANY value (negative, huge) every access to the cpu_set_t stays
    in bounds, and the mask handed to sched_setaffinity(pid, sizeof(cpu_set_t), mask) has exactly the bits of the items that are
    valid CPU numbers (0..1023) set; -1 is rejected with ValueError before the kernel is called."""
    mod = module("arch/linux/proc.c")
    vals = [ctx.int(f"v{i}", -(2**63), 2**63 - 1) for i in range(n)]
    pidv = ctx.int("pid", -(2**31), 2**31 - 1)
    mk = (lambda nm, v, w: z3.BitVec(nm, w)) if ctx.symbolic else (lambda nm, v, w: z3.BitVecVal(v, w))
    items = [mk(f"v{i}", vals[i], 64) for i in range(n)]
    pid = mk("pid", pidv, 32)
    state = {"ints": [lambda w: pid]}

    def parse(I, st, w, c, args, fmt, *outs):
        f = cir.const_cstr(I, st, fmt).split(":")[0]
        if f != "iO":
            raise NotImplementedError("format " + f)
        I.store(st, outs[0], 4, pid)
        I.store(st, outs[1], 8, cir.newobj(I, st, "seq"))
        return z3.BitVecVal(1, 32)

    def getitem(I, st, w, c, seq_, i):
        ii = z3.simplify(i)
        k_ = st.new_obj(f"item{ii.as_long()}", 16)
        st.objs[k_].cells[0] = (8, z3.BitVecVal(1, 64))
        return cir.Ptr(k_, 0, 0, 16)

    def aslong(I, st, w, c, o):
        i = int(o.obj.split("#")[0][4:])
        st.log.append(("aslong", i))
        return items[i]

    def setaff(I, st, w, c, pid_, len_, mask):
        o = st.objs[mask.obj]
        I.oblige(st, z3.ULE(len_, o.size - mask.off), "sched_setaffinity: load out of bounds: length larger than the mask object")
        words = [I.load(st, cir.Ptr(mask.obj, mask.off + 8 * j), 8, False) for j in range(16)]
        st.log.append(("setaffinity", pid_, len_, words))
        return z3.BitVec("setaff_ret", 32)

    stubs = {"@PyArg_ParseTuple": parse, "@PySequence_Check": lambda I, st, w, c, o: z3.BitVecVal(1, 32), "@PySequence_Size": lambda I, st, w, c, o: z3.BitVecVal(n, 64),
             "@PySequence_GetItem": getitem, "@PyLong_AsLong": aslong, "@PyErr_Occurred": lambda I, st, w, c: cir.NULL, "@PyErr_SetString": lambda I, st, w, c, *a: st.log.append(("error", a[0].obj)),
             "@PyErr_Format": lambda *a: cir.NULL, "@PyErr_SetFromErrno": lambda *a: cir.NULL, "@Py_TYPE": lambda I, st, w, c, o: cir.newobj(I, st, "type"), "@Py_XDECREF": cir.nop,
             "@llvm.memset.p0i8.i64": _memset, "@sched_setaffinity": setaff, "@_Py_Dealloc": cir.nop}
    I = cir.Interp(mod, stubs)
    res = I.run("@psutil_proc_cpu_affinity_set", [cir.NULL, cir.NULL])
    ok, why, bad_st = bool(res), "no completed path", None
    for st, ret in res:
        calls = [x for x in st.log if x[0] == "setaffinity"]
        errs = [x for x in st.log if x[0] == "error"]
        seen = len([x for x in st.log if x[0] == "aslong"])
        minus1 = [I.sat(st, items[i] == -1)[0] == "sat" and I.sat(st, items[i] != -1)[0] == "unsat" for i in range(seen)]
        if any(minus1):
            if calls or not errs or not (isinstance(ret, cir.Ptr) and ret.obj is None):
                ok, why, bad_st = False, "an item equal to -1 must raise ValueError before the kernel is called", st
            continue
        if len(calls) != 1:
            ok, why, bad_st = False, f"sched_setaffinity called {len(calls)} times", st
            continue
        _, pid_, len_, words = calls[0]
        want = [z3.BitVecVal(0, 64)] * 16
        for v in items:
            for j in range(16):
                hit = z3.And(z3.ULT(v, 1024), z3.LShR(v, 6) == j)
                want[j] = want[j] | z3.If(hit, z3.BitVecVal(1, 64) << (v & 63), z3.BitVecVal(0, 64))
        cond = z3.And(pid_ == pid, len_ == 128, *[words[j] == want[j] for j in range(16)])
        if not I.oblige(st, cond, "affinity_set: the mask handed to the kernel is not exactly the valid CPU numbers of the sequence (or pid / length wrong)"):
            ok, why, bad_st = False, "mask/pid/length handed to sched_setaffinity", st

    def assign(m):
        out = {}
        if m is None:
            return out
        vals_ = {d.name(): m[d] for d in m.decls()}
        for nm in [f"v{i}" for i in range(n)] + ["pid"]:
            if nm in vals_:
                out[nm] = vals_[nm].as_signed_long()
        return out

    fid = [f for f in I.findings if f[0].startswith("affinity_set:")]
    ctx.external("affinity-mask", ok and not fid, assign(fid[0][1]) if fid else assign(I.sat(bad_st)[1]) if bad_st is not None else {}, detail=fid[0][0] if fid else why)
    I.findings = [f for f in I.findings if f not in fid]
    report(ctx, I, ["memory-in-bounds"], assign)


@harness("C17.affinity_get_c", quick=[dict(einval=e, nbits=b) for e, b in ((0, 3), (1, 2), (30, 1))], thorough=[dict(einval=e, nbits=b) for e, b in ((0, 6), (1, 3), (2, 3), (30, 1))])
def affinity_get_c(ctx, einval, nbits):
    """psutil_proc_cpu_affinity_get: sched_getaffinity() answers EINVAL `einval` times (mask too small) before it succeeds; the CPU
    set is re-allocated at twice the size each time without the size computation overflowing (OverflowError past INT_MAX/2); the
    list returned is exactly the set bits of the kernel's mask in ascending order (nbits symbolic bits, spread over the mask)."""
    mod = module("arch/linux/proc.c")
    bitsv = [ctx.int(f"bit{i}", 0, 1) for i in range(nbits)]
    mk = (lambda nm, v, w: z3.BitVec(nm, w)) if ctx.symbolic else (lambda nm, v, w: z3.BitVecVal(v, w))
    bits = [mk(f"bit{i}", bitsv[i], 8) for i in range(nbits)]
    st0 = cir.State()
    if ctx.symbolic:
        for b in bits:
            st0.pc.append(z3.ULE(b, 1))
    POS = [0, 5, 63, 64, 70, 127][:nbits] if einval else [0, 5, 63, 7, 31, 62][:nbits]      # CPU numbers of the symbolic bits
    state = {"ints": [lambda w: z3.BitVec("pid", 32)], "allocs": []}

    def cpualloc(I, st, w, c, count):
        cc = z3.simplify(count)
        if not z3.is_bv_value(cc):
            raise NotImplementedError("CPU_ALLOC with symbolic count")
        size = ((cc.as_long() + 63) // 64) * 8
        k_ = st.new_obj("cpuset", size)
        st.log.append(("alloc", k_, cc.as_long(), size))
        return cir.Ptr(k_, 0, 0, size)

    def cpufree(I, st, w, c, p_):
        st.log.append(("free", p_.obj))
        return None

    def getaff(I, st, w, c, pid_, size, mask):
        o = st.objs[mask.obj]
        I.oblige(st, z3.ULE(size, o.size - mask.off), "sched_getaffinity: store out of bounds: size larger than the allocated CPU set")
        n_ = sum(1 for x in st.log if x[0] == "getaff")
        st.log.append(("getaff", mask.obj, size))
        if n_ < einval:
            st.log.append(("errno", 22))
            return z3.BitVecVal(-1, 32)
        for j in range(o.size):
            I.store(st, cir.Ptr(mask.obj, j), 1, z3.BitVecVal(0, 8))
        for i, pos in enumerate(POS):
            if pos // 8 < o.size:
                cur = I.byte_at(st, mask.obj, pos // 8)
                I.store(st, cir.Ptr(mask.obj, pos // 8), 1, cur | (bits[i] << (pos % 8)))
        return z3.BitVecVal(0, 32)

    def cpucount(I, st, w, c, size, mask):
        o = st.objs[mask.obj]
        I.oblige(st, z3.ULE(size, o.size - mask.off), "CPU_COUNT_S: load out of bounds: size larger than the allocated CPU set")
        tot = z3.BitVecVal(0, 32)
        for i, pos in enumerate(POS):
            if pos // 8 < o.size:
                tot = tot + z3.ZeroExt(24, bits[i])
        return tot

    def errno_loc(I, st, w, c):
        k_ = st.new_obj("errno", 4, {0: z3.BitVecVal(22, 8), 1: z3.BitVecVal(0, 8), 2: z3.BitVecVal(0, 8), 3: z3.BitVecVal(0, 8)})
        return cir.Ptr(k_, 0, 0, 4)

    def fromlong(I, st, w, c, v):
        o = cir.newobj(I, st, "int")
        st.log.append(("int", o.obj, v))
        return o

    stubs = {"@PyArg_ParseTuple": parse_stub(state), "@__sched_cpualloc": cpualloc, "@__sched_cpufree": cpufree, "@sched_getaffinity": getaff, "@__sched_cpucount": cpucount,
             "@__errno_location": errno_loc, "@PyErr_NoMemory": lambda *a: cir.NULL, "@PyErr_SetFromErrno": lambda *a: cir.NULL,
             "@PyErr_SetString": lambda I, st, w, c, *a: st.log.append(("error", a[0].obj)), "@PyList_New": lambda I, st, w, c, n_: cir.newobj(I, st, "list"),
             "@PyLong_FromLong": fromlong, "@PyList_Append": lambda I, st, w, c, l, x: z3.BitVecVal(0, 32) if st.log.append(("append", x.obj)) is None else None,
             "@Py_XDECREF": cir.nop, "@_Py_Dealloc": cir.nop, "@fprintf": lambda I, st, w, c, *a: z3.BitVecVal(0, 32), "@psutil_debug": cir.nop}
    I = cir.Interp(mod, stubs)
    res = I.run("@psutil_proc_cpu_affinity_get", [cir.NULL, cir.NULL], st=st0, max_steps=60000)
    ok, why, bad_st = bool(res), "no completed path", None
    for st, ret in res:
        allocs = [x for x in st.log if x[0] == "alloc"]
        frees = [x[1] for x in st.log if x[0] == "free"]
        if sorted(frees) != sorted(a[1] for a in allocs):
            ok, why, bad_st = False, f"every CPU set allocated must be released exactly once: allocated {[a[1] for a in allocs]}, freed {frees}", st
        if [a[2] for a in allocs] != [64 * 2**i for i in range(len(allocs))]:
            ok, why, bad_st = False, f"CPU set sizes {[a[2] for a in allocs]}", st
        errs = [x for x in st.log if x[0] == "error"]
        if einval >= 26:
            if not errs or not (isinstance(ret, cir.Ptr) and ret.obj is None) or "OverflowError" not in errs[0][1]:
                ok, why, bad_st = False, "a kernel that never accepts the mask size must end in OverflowError", st
            continue
        ints = {x[1]: x[2] for x in st.log if x[0] == "int"}
        apps = [ints.get(x[1]) for x in st.log if x[0] == "append"]
        # the appended numbers, in order, are exactly the positions whose bit is 1 on this path
        want = []
        for i, pos in sorted(enumerate(POS), key=lambda t: t[1]):
            one = I.sat(st, bits[i] == 1)[0] == "sat"
            zero = I.sat(st, bits[i] == 0)[0] == "sat"
            if one and zero:
                ok, why, bad_st = False, f"path does not decide bit of CPU {pos}", st
            if one and not zero:
                want.append(pos)
        got = [z3.simplify(a).as_signed_long() if a is not None and z3.is_bv_value(z3.simplify(a)) else None for a in apps]
        if got != want:
            ok, why, bad_st = False, f"CPUs reported {got}, mask has {want}", st

    def assign(m):
        out = {}
        if m is None:
            return out
        vals_ = {d.name(): m[d] for d in m.decls()}
        for i in range(nbits):
            if f"bit{i}" in vals_:
                out[f"bit{i}"] = vals_[f"bit{i}"].as_long()
        return out

    ctx.external("affinity-list", ok or (not res and bool(I.findings)), assign(I.sat(bad_st)[1]) if bad_st is not None else {}, detail=why)
    report(ctx, I, ["memory-in-bounds", "loops-terminate"], assign)


# ---- _psutil_posix.c: psutil_convert_ipaddr / psutil_net_if_addrs -------------------------------------------------------------

def _hexch(n4):
    n = z3.ZeroExt(4, n4)
    return z3.If(z3.ULT(n, 10), n + 48, n + 87)


@harness("C17.mac_c", quick=[dict(fam=f) for f in ("packet", "inet", "inet6", "other", "null")])
def mac_c(ctx, fam):
    """psutil_convert_ipaddr: for a link-layer address of any length glibc can hand over (sll_halen <= 24, the width of glibc's
    sockaddr_ll_max storage) every read stays inside the address object, every write inside buf[NI_MAXHOST], and the text is the
    address bytes as two lower-case hex digits each joined by ':'; for AF_INET/AF_INET6 getnameinfo() gets the right sockaddr length."""
    mod = module("_psutil_posix.c")
    size = {"packet": 36, "inet": 16, "inet6": 28, "other": 16, "null": 0}[fam]
    famv = ctx.int("family", 0, 65535)
    halen = ctx.int("halen", 0, 24)
    data = [ctx.int(f"d{i}", 0, 255) for i in range(24)] if fam == "packet" else []
    mk = (lambda n, v, w: z3.BitVec(n, w)) if ctx.symbolic else (lambda n, v, w: z3.BitVecVal(v, w))
    family = mk("family", famv, 32)
    st0 = cir.State()
    if ctx.symbolic:
        st0.pc.append(z3.And(family >= 0, family <= 65535))
        st0.pc.append({"packet": family == 17, "inet": family == 2, "inet6": family == 10, "other": z3.And(family != 17, family != 2, family != 10), "null": family == family}[fam])
    else:
        want = {"packet": famv == 17, "inet": famv == 2, "inet6": famv == 10, "other": famv not in (2, 10, 17), "null": True}[fam]
        ctx.assume(want)
    if fam == "null":
        addr = cir.NULL
    else:
        init = {}
        if fam == "packet":
            hl = mk("halen", halen, 8)
            if ctx.symbolic:
                st0.pc.append(z3.ULE(hl, 24))
            init[11] = hl
            for i in range(24):
                init[12 + i] = mk(f"d{i}", data[i], 8)
        k = st0.new_obj("sockaddr", size, init)
        addr = cir.Ptr(k, 0, 0, size)
    log_gni = []

    def getnameinfo(I, st, w, c, sa, salen, host, hostlen, serv, servlen, flags):
        o = st.objs[sa.obj]
        wantlen = {"inet": 16, "inet6": 28}.get(fam)
        I.oblige(st, salen == wantlen if wantlen else False, f"getnameinfo: sockaddr length is not sizeof(struct sockaddr_in{'6' if fam == 'inet6' else ''})")
        I.oblige(st, z3.ULE(z3.ZeroExt(32, salen), o.size - sa.off), "getnameinfo: load out of bounds of the socket address")
        ho = st.objs[host.obj]
        I.oblige(st, z3.ULE(z3.ZeroExt(32, hostlen), ho.size - host.off), "getnameinfo: store out of bounds: host buffer length larger than the buffer")
        I.oblige(st, flags == 1, "getnameinfo: not called with NI_NUMERICHOST")
        for i in range(46):
            I.store(st, cir.Ptr(host.obj, host.off + i), 1, z3.BitVec(f"host{i}", 8))
        I.store(st, cir.Ptr(host.obj, host.off + 46), 1, z3.BitVecVal(0, 8))
        st.log.append(("getnameinfo", sa.obj, host.obj))
        return z3.BitVec("gni_err", 32)

    def sprintf(I, st, w, c, dst, fmt, v):
        f = cir.const_cstr(I, st, fmt)
        if f != "%02x:":
            raise NotImplementedError("sprintf format " + repr(f))
        I.oblige(st, z3.ULT(v, 256), "sprintf('%02x:'): value wider than one byte, the text is not two hex digits per address byte")
        b = z3.Extract(7, 0, v)
        for i, ch in enumerate((_hexch(z3.Extract(7, 4, b)), _hexch(z3.Extract(3, 0, b)), z3.BitVecVal(58, 8), z3.BitVecVal(0, 8))):
            I.store(st, cir.Ptr(dst.obj, dst.off + i), 1, ch)
        st.log.append(("sprintf", dst.obj, dst.off, b))
        return z3.BitVecVal(3, 32)

    def build(I, st, w, c, fmt, *a):
        f = cir.const_cstr(I, st, fmt)
        if f == "s":
            cir.cstring_obligations(I, st, a[0], "Py_BuildValue('s')")
        st.log.append(("build", f, a))
        return cir.newobj(I, st, "str")

    stubs = {"@getnameinfo": getnameinfo, "@sprintf": sprintf, "@Py_BuildValue": build, "@Py_IncRef": cir.nop, "@Py_DecRef": cir.nop, "@_Py_Dealloc": cir.nop}
    I = cir.Interp(mod, stubs)
    res = I.run("@psutil_convert_ipaddr", [addr, family], st=st0)
    ok, why, nb = bool(res), "no completed path", 0
    for st, ret in res:
        is_none = isinstance(ret, cir.Ptr) and ret.obj is not None and "_Py_NoneStruct" in ret.obj
        builds = [x for x in st.log if x[0] == "build"]
        if fam in ("null", "other"):
            if not is_none or builds:
                ok, why = False, "NULL address / unknown family must give None"
            continue
        if fam in ("inet", "inet6"):
            g = [x for x in st.log if x[0] == "getnameinfo"]
            if len(g) != 1 or (builds and (builds[0][2][0].obj != g[0][2])):
                ok, why = False, "the text returned is not the buffer getnameinfo() filled"
            nb += 1
            continue
        # AF_PACKET: the text built is hex(d0):hex(d1):...:hex(d[len-1]) NUL for len = sll_halen > 0, None for 0
        hl = init[11]
        if is_none:
            if not I.oblige(st, hl == 0, "mac: None returned for a non-empty hardware address"):
                ok, why = False, "None for a non-empty hardware address"
            continue
        if len(builds) != 1:
            ok, why = False, "no text built"
            continue
        nb += 1
        buf = builds[0][2][0]
        nsp = len([x for x in st.log if x[0] == "sprintf"])
        conds = [hl == nsp]
        for i in range(nsp):
            d = init[12 + i] if 12 + i < size else None
            if d is None:
                ok, why = False, "more bytes formatted than the address object holds"
                break
            conds += [I.byte_at(st, buf.obj, buf.off + 3 * i) == _hexch(z3.Extract(7, 4, d)), I.byte_at(st, buf.obj, buf.off + 3 * i + 1) == _hexch(z3.Extract(3, 0, d)),
                      I.byte_at(st, buf.obj, buf.off + 3 * i + 2) == (58 if i < nsp - 1 else 0)]
        if not I.oblige(st, z3.And(*conds), "mac: the text is not the hardware address bytes as 'xx:xx:...:xx'"):
            ok, why = False, "text differs from the hardware address bytes"

    def assign(m):
        out = {}
        if m is None:
            return out
        vals = {d.name(): m[d] for d in m.decls()}
        for n in ["family", "halen"] + [f"d{i}" for i in range(24)]:
            if n in vals:
                out[n] = vals[n].as_long()
        return out

    fid = [f for f in I.findings if f[0].startswith(("mac:", "sprintf(", "getnameinfo: sockaddr length", "getnameinfo: not called"))]
    ctx.external("address-text", ok and not fid and (nb > 0 or fam in ("null", "other")), assign(fid[0][1]) if fid else {}, detail=(fid[0][0] if fid else why))
    I.findings = [f for f in I.findings if f not in fid]
    report(ctx, I, ["memory-in-bounds", "cstring-within-record"], assign)


IFF_BROADCAST, IFF_POINTOPOINT = 0x2, 0x10


@harness("C17.ifaddrs_c", quick=[dict(fail=True, nodes=0, conv="")] + [dict(fail=False, nodes=n, conv=c) for n, c in ((0, ""), (1, "ooo"), (1, "N"), (1, "0"), (1, "o0"), (1, "oo0"), (1, "oNN"), (2, "oooooo"), (2, "Nooo"))],
         thorough=[dict(fail=True, nodes=0, conv="")] + [dict(fail=False, nodes=n, conv=c) for n, c in ((0, ""), (1, "ooo"), (1, "N"), (1, "0"), (1, "o0"), (1, "oo0"), (1, "oNN"), (1, "ooN"), (2, "oooooo"), (2, "Nooo"), (2, "ooo0"), (2, "oooN"), (2, "ooooo0"), (3, "oooNooo"))])
def ifaddrs_c(ctx, fail, nodes, conv):
    """psutil_net_if_addrs: one tuple per interface address the libc list holds (entries without an address, or whose address cannot
    be rendered, are skipped), built from that entry's name, family, address, netmask and -- by IFF_BROADCAST / IFF_POINTOPOINT --
    broadcast or destination address; the list is released exactly once; nothing is read that getifaddrs() did not provide.
    Contract of getifaddrs(): on failure it returns -1 and says nothing about *ifap.
    conv = outcomes of the successive psutil_convert_ipaddr calls: o = a str object, N = None, 0 = NULL (allocation failure)."""
    mod = module("_psutil_posix.c")
    mk = (lambda n, v, w: z3.BitVec(n, w)) if ctx.symbolic else (lambda n, v, w: z3.BitVecVal(v, w))
    flagsv = [ctx.int(f"flags{i}", 0, 2**32 - 1) for i in range(nodes)]
    famv = [ctx.int(f"fam{i}", 0, 65535) for i in range(nodes)]
    has_addr = [ctx.flag(f"has_addr{i}") for i in range(nodes)]
    st0 = cir.State()
    node_objs, info = [], []
    for i in range(nodes):
        k = st0.new_obj(f"ifaddrs{i}", 56)
        node_objs.append(k)
    for i in range(nodes):
        k = node_objs[i]
        o = st0.objs[k]
        name = st0.new_obj(f"name{i}", 5, {j: z3.BitVecVal(b, 8) for j, b in enumerate(b"eth%d\0" % i)})
        sa = st0.new_obj(f"addr{i}", 36, {0: z3.Extract(7, 0, mk(f"fam{i}", famv[i], 16)), 1: z3.Extract(15, 8, mk(f"fam{i}", famv[i], 16))})
        nm = st0.new_obj(f"netmask{i}", 36)
        ifu = st0.new_obj(f"ifu{i}", 36)
        o.cells[0] = (8, cir.Ptr(node_objs[i + 1], 0, 0, 56) if i + 1 < nodes else cir.NULL)
        o.cells[8] = (8, cir.Ptr(name, 0, 0, 5))
        o.cells[16] = (4, mk(f"flags{i}", flagsv[i], 32))
        o.cells[24] = (8, cir.Ptr(sa, 0, 0, 36) if has_addr[i] else cir.NULL)
        o.cells[32] = (8, cir.Ptr(nm, 0, 0, 36))
        o.cells[40] = (8, cir.Ptr(ifu, 0, 0, 36))
        o.cells[48] = (8, cir.NULL)
        info.append(dict(name=name, sa=sa, nm=nm, ifu=ifu))
    outcomes = list(conv)

    def getifaddrs(I, st, w, c, ifap):
        st.log.append(("getifaddrs",))
        if fail:
            return z3.BitVecVal(-1, 32)          # *ifap is left as it was: the contract promises nothing about it on failure
        I.store(st, ifap, 8, cir.Ptr(node_objs[0], 0, 0, 56) if nodes else cir.NULL)
        return z3.BitVecVal(0, 32)

    def freeifaddrs(I, st, w, c, p):
        st.log.append(("free", p.obj))
        return None

    def convert(I, st, w, c, addr, family):
        n = sum(1 for x in st.log if x[0] == "conv")
        kind = outcomes[n] if n < len(outcomes) else "o"
        r = cir.newobj(I, st, "str") if kind == "o" else I.global_ptr(st, "@_Py_NoneStruct") if kind == "N" else cir.NULL
        st.log.append(("conv", addr.obj, family, r.obj))
        return r

    def build(I, st, w, c, fmt, *a):
        st.log.append(("build", cir.const_cstr(I, st, fmt), a))
        return cir.newobj(I, st, "tuple")

    stubs = {"@PyList_New": lambda I, st, w, c, n: cir.newobj(I, st, "list"), "@getifaddrs": getifaddrs, "@freeifaddrs": freeifaddrs, "@psutil_convert_ipaddr": convert, "@Py_BuildValue": build,
             "@PyList_Append": lambda I, st, w, c, l, x: z3.BitVecVal(0, 32) if st.log.append(("append", x.obj)) is None else None, "@PyErr_SetFromErrno": lambda *a: cir.NULL,
             "@_Py_Dealloc": cir.nop, "@Py_XDECREF": cir.nop, "@Py_DecRef": cir.nop, "@Py_IncRef": cir.nop}
    I = cir.Interp(mod, stubs)
    res = I.run("@psutil_net_if_addrs", [cir.NULL, cir.NULL], st=st0)
    ok, why = bool(res) or bool(I.findings), "no completed path"
    bad_st = prev_st = None
    for st, ret in res:
        if not ok and bad_st is None:
            bad_st = prev_st
        prev_st = st
        frees = [x for x in st.log if x[0] == "free"]
        if fail:
            if frees:
                ok, why = False, f"freeifaddrs() called after getifaddrs() failed (with {frees})"
            if not (isinstance(ret, cir.Ptr) and ret.obj is None):
                ok, why = False, "a failed getifaddrs() must raise"
            continue
        if nodes and [f[1] for f in frees] != [node_objs[0]]:
            ok, why = False, f"the address list must be released exactly once, with the list head: {frees}"
        convs = [x for x in st.log if x[0] == "conv"]
        builds = [x for x in st.log if x[0] == "build"]
        errored = isinstance(ret, cir.Ptr) and ret.obj is None
        ci, bi = 0, 0
        for i in range(nodes):
            if not has_addr[i]:
                continue
            if ci >= len(convs):
                if not errored:
                    ok, why = False, f"entry {i} was not converted"
                break
            fam16 = z3.Concat(st0.objs[info[i]["sa"]].bytes[1], st0.objs[info[i]["sa"]].bytes[0])
            c0 = convs[ci]
            if c0[1] != info[i]["sa"] or not I.oblige(st, c0[2] == z3.ZeroExt(16, fam16), "ifaddrs: family passed on is not the entry's sa_family"):
                ok, why = False, f"entry {i}: address/family not taken from ifa_addr"
            ci += 1
            if c0[3] is None:
                break                                   # allocation failure: error path
            if "_Py_NoneStruct" in c0[3]:
                continue                                # address cannot be rendered: entry skipped
            if ci >= len(convs):
                ok, why = False, f"entry {i}: netmask not converted"
                break
            c1 = convs[ci]
            ci += 1
            if c1[1] != info[i]["nm"]:
                ok, why = False, f"entry {i}: netmask not taken from ifa_netmask"
            if c1[3] is None:
                break
            fl = st0.objs[node_objs[i]].cells[16][1]
            # which of broadcast / ptp is converted is decided by the flags on this path
            bro = I.sat(st, (fl & IFF_BROADCAST) != 0)[0] == "sat" and I.sat(st, (fl & IFF_BROADCAST) == 0)[0] == "unsat"
            p2p = (not bro) and I.sat(st, (fl & IFF_POINTOPOINT) != 0)[0] == "sat" and I.sat(st, (fl & IFF_POINTOPOINT) == 0)[0] == "unsat"
            c2 = None
            if bro or p2p:
                if ci >= len(convs):
                    ok, why = False, f"entry {i}: broadcast/destination address not converted"
                    break
                c2 = convs[ci]
                ci += 1
                if c2[1] != info[i]["ifu"]:
                    ok, why = False, f"entry {i}: broadcast/destination not taken from ifa_ifu"
                if c2[3] is None:
                    break
            if bi >= len(builds):
                if not errored:
                    ok, why = False, f"entry {i}: no tuple built"
                break
            b = builds[bi]
            bi += 1
            a = b[2]
            none = "G@_Py_NoneStruct"
            want_b = c2[3] if bro else none
            want_p = c2[3] if p2p else none
            got = (b[1], a[0].obj, a[2].obj, a[3].obj, a[4].obj, a[5].obj)
            want = ("(siOOOO)", info[i]["name"], c0[3], c1[3], want_b, want_p)
            if got != want or not I.oblige(st, a[1] == z3.ZeroExt(16, fam16), "ifaddrs: family in the tuple is not the entry's sa_family"):
                ok, why = False, f"entry {i}: tuple {got}, expected {want} (name, family, address, netmask, broadcast, ptp)"
        if not errored and bi != len(builds):
            ok, why = False, "more tuples than entries"

    def assign(m):
        out = {}
        if m is None:
            return out
        vals = {d.name(): m[d] for d in m.decls()}
        for i in range(nodes):
            for n in (f"flags{i}", f"fam{i}"):
                if n in vals:
                    out[n] = vals[n].as_long()
        return out

    if not ok and bad_st is None and res:
        bad_st = prev_st
    fid = [f for f in I.findings if f[0].startswith("ifaddrs:")]
    ctx.external("ifaddrs-tuples", ok and not fid, assign(fid[0][1]) if fid else assign(I.sat(bad_st)[1]) if bad_st is not None else {}, detail=(fid[0][0] if fid else why))
    I.findings = [f for f in I.findings if f not in fid]
    uninit = [f for f in I.findings if "uninitialised" in f[0]]
    det = uninit[0][0] if uninit else ""
    if uninit and not ctx.symbolic:
        try:
            from psv import realbuild

            lib = realbuild.shim('#include <errno.h>\n#include <stdio.h>\n#include <unistd.h>\nstruct ifaddrs;\n'
                                 'int getifaddrs(struct ifaddrs **p) { errno = ENOMEM; return -1; }   /* fails as its contract allows: says nothing about *p */\n'
                                 'void freeifaddrs(struct ifaddrs *p) { fprintf(stderr, "freeifaddrs(%p) after a failed getifaddrs()\\n", (void *)p); fflush(stderr); _exit(97); }\n')
            rc, out, err = realbuild.run("import psutil\ntry:\n    psutil.net_if_addrs()\nexcept OSError as e:\n    print('OSError', e)", preload=lib)
            det += " || compiled extension under a getifaddrs() that returns -1 without touching *ifap: " + ("REPRODUCED: " + err.strip()[-120:] if rc == 97 else f"exit status {rc}, {out.strip()[-80:]} (the stack slot happened to hold NULL)")
        except Exception as e:  # noqa: BLE001
            det += f" || compiled extension: replay not possible ({type(e).__name__}: {e})"
    ctx.external("no-uninitialised-read", not uninit, {}, detail=det)
    I.findings = [f for f in I.findings if f not in uninit]
    report(ctx, I, ["memory-in-bounds"], assign)


# ---- disk.c ---------------------------------------------------------------------------------------------------------------

def _syscall_msg_limit():
    """psutil_PyErr_SetFromOSErrnoWithSyscall(const char *syscall) formats "<strerror> (originated from <syscall>)" into a fixed
    buffer with sprintf(): the longest `syscall` text it can take, computed from the current source of the helper"""
    import re

    import os

    src = open(os.path.join(cir.REPO, "psutil", "_psutil_common.c")).read()
    body = src[src.index("psutil_PyErr_SetFromOSErrnoWithSyscall(const char *syscall) {"):]
    body = body[:body.index("\n}\n")]
    m = re.search(r"char\s+fullmsg\[(\d+)\]", body)
    if not m or "sprintf(fullmsg" not in body:
        return None           # the helper no longer has that shape: no bound to hold callers to
    return int(m.group(1)) - 1 - len(" (originated from )") - 64          # 64 >= the longest strerror() text of glibc


@harness("C17.partitions_c", quick=[dict(linelen=n) for n in (60, 1500, 4000)] + [dict(linelen=60, fail=True, pathlen=n) for n in (17, 4000)],
         thorough=[dict(linelen=n) for n in (10, 60, 1023, 1024, 1500, 4000, 4094)] + [dict(linelen=60, fail=True, pathlen=n) for n in (17, 900, 1100, 4000, 4095)])
def partitions_c(ctx, linelen, fail=False, pathlen=17):
    """psutil_disk_partitions: each mount entry's device, mount point, type and options reach Python unmodified and in that order,
    for a mount line of `linelen` bytes (glibc's getmntent() handles lines up to 4095 bytes; a caller-supplied buffer must not be smaller).
    fail: setmntent() fails for a mount-table path of `pathlen` bytes (any path up to PATH_MAX can be passed in): the outcome is a
    Python exception, whatever the length -- text handed to the fixed-size message buffer of the common error helper must fit it"""
    mod = module("arch/linux/disk.c")
    names = ["fsname", "dir", "type", "opts"]
    mtab = (b"/proc/self/mounts" if not fail else b"/" + b"m" * (pathlen - 1))
    state = {"strings": [lambda I, st: _cstr(I, st, "path", mtab)], "objs": {}}

    def _cstr(I, st, tag, data):
        k = st.new_obj(tag, len(data) + 1, {i: z3.BitVecVal(b, 8) for i, b in enumerate(data + b"\0")})
        return cir.Ptr(k, 0, 0, len(data) + 1)

    def entry_strings(I, st):
        opts = b"rw," + b"lowerdir=/l:" * ((linelen - 40) // 12) if linelen > 60 else b"rw,relatime"
        return [_cstr(I, st, "fsname", b"/dev/sda1"), _cstr(I, st, "dir", b"/mnt/x y"), _cstr(I, st, "type", b"ext4"), _cstr(I, st, "opts", opts)]

    def fill(I, st, ent):
        ptrs = entry_strings(I, st)
        for i, p_ in enumerate(ptrs):
            I.store(st, cir.Ptr(ent.obj, ent.off + 8 * i), 8, p_)
            state["objs"][names[i]] = p_.obj
        return ent

    def getmntent(I, st, w, c, f):
        n = sum(1 for x in st.log if x[0] == "getmntent")
        st.log.append(("getmntent",))
        if n >= 1:
            return cir.NULL
        k = st.new_obj("mntent", 40)
        return fill(I, st, cir.Ptr(k, 0, 0, 40))

    def getmntent_r(I, st, w, c, f, mntbuf, buf, buflen):
        n = sum(1 for x in st.log if x[0] == "getmntent")
        st.log.append(("getmntent",))
        if n >= 1:
            return cir.NULL
        I.oblige(st, z3.UGT(z3.ZeroExt(64 - buflen.size(), buflen) if buflen.size() < 64 else buflen, z3.BitVecVal(4095, 64)),
                 f"getmntent_r: caller buffer smaller than a mount line glibc itself accepts (4095 bytes): a {linelen}-byte entry is silently truncated")
        o = st.objs[buf.obj]
        I.oblige(st, z3.ULE(z3.ZeroExt(64 - buflen.size(), buflen) if buflen.size() < 64 else buflen, z3.BitVecVal(o.size - buf.off, 64)), "getmntent_r: buflen larger than the buffer: store out of bounds")
        return fill(I, st, mntbuf)

    def decode(I, st, w, c, p_):
        cir.cstring_obligations(I, st, p_, "PyUnicode_DecodeFSDefault")
        o = cir.newobj(I, st, "str")
        st.log.append(("decode", p_.obj, o.obj))
        return o

    def build(I, st, w, c, fmt, *a):
        st.log.append(("build", cir.const_cstr(I, st, fmt), a))
        return cir.newobj(I, st, "tuple")

    def snprintf(I, st, w, c, dst, size, fmt, *a):
        # literal text and %s conversions of C strings whose length is concrete here
        f, out, args = cir.const_cstr(I, st, fmt), b"", list(a)
        parts = f.split("%s")
        for j, lit in enumerate(parts):
            if "%" in lit:
                raise NotImplementedError("snprintf format " + repr(f))
            out += lit.encode("latin-1")
            if j < len(parts) - 1:
                arg = args.pop(0)
                cir.cstring_obligations(I, st, arg, "snprintf(%s)")
                t = cir.const_cstr(I, st, arg)
                if t is None:
                    raise NotImplementedError("snprintf: %s argument with symbolic length")
                out += t.encode("latin-1")
        n = z3.simplify(size).as_long()
        data = out[:max(n - 1, 0)] + b"\0" if n else b""
        o = st.objs[dst.obj]
        I.oblige(st, z3.BoolVal(dst.off + len(data) <= o.size), f"snprintf: {len(data)} bytes written into the {o.size - dst.off} bytes left of {dst.obj.split('#')[0]}")
        for i_, b_ in enumerate(data[:max(o.size - dst.off, 0)]):
            I.store(st, cir.Ptr(dst.obj, dst.off + i_), 1, z3.BitVecVal(b_, 8))
        return z3.BitVecVal(len(out), 32)

    def os_error_with_syscall(I, st, w, c, msg):
        cir.cstring_obligations(I, st, msg, "psutil_PyErr_SetFromOSErrnoWithSyscall")
        t, lim = cir.const_cstr(I, st, msg), _syscall_msg_limit()
        if t is None:
            raise NotImplementedError("error helper: text with symbolic length")
        if lim is not None:
            I.oblige(st, z3.BoolVal(len(t) <= lim), f"psutil_PyErr_SetFromOSErrnoWithSyscall: a {len(t)}-byte text is formatted with sprintf() into the helper's fixed buffer (room for {lim}): write past the end of that stack buffer")
        st.log.append(("oserror",))
        return cir.NULL

    def set_from_errno(I, st, w, c, *a):
        st.log.append(("oserror",))
        return cir.NULL

    stubs = {"@PyList_New": lambda I, st, w, c, n: cir.newobj(I, st, "list"), "@PyArg_ParseTuple": parse_stub(state), "@PyEval_SaveThread": lambda I, st, w, c: cir.newobj(I, st, "tstate"),
             "@snprintf": snprintf, "@psutil_PyErr_SetFromOSErrnoWithSyscall": os_error_with_syscall, "@fprintf": lambda I, st, w, c, *a: z3.BitVecVal(0, 32),
             "@PyEval_RestoreThread": cir.nop, "@setmntent": (lambda I, st, w, c, *a: cir.NULL) if fail else (lambda I, st, w, c, *a: cir.newobj(I, st, "FILE")), "@endmntent": lambda I, st, w, c, *a: z3.BitVecVal(1, 32), "@getmntent": getmntent,
             "@getmntent_r": getmntent_r, "@PyUnicode_DecodeFSDefault": decode, "@Py_BuildValue": build, "@PyList_Append": lambda I, st, w, c, *a: z3.BitVecVal(0, 32), "@PyErr_Format": lambda *a: cir.NULL,
             "@PyErr_SetFromErrnoWithFilename": set_from_errno, "@psutil_debug": cir.nop, "@_Py_Dealloc": cir.nop, "@Py_XDECREF": cir.nop, "@Py_DecRef": cir.nop, "@Py_IncRef": cir.nop}
    I = cir.Interp(mod, stubs)
    res = I.run("@psutil_disk_partitions", [cir.NULL, cir.NULL])
    if fail:
        # the outcome is a Python exception: NULL returned with an OSError set, and nothing written out of bounds on the way
        good = bool(res) and all(isinstance(ret, cir.Ptr) and ret.obj is None and any(x[0] == "oserror" for x in st.log) for st, ret in res)
        report(ctx, I, ["memory-in-bounds", "cstring-within-record"], lambda m: {})
        ctx.external("failure-is-a-python-exception", good, {}, detail=f"setmntent() failing for a {pathlen}-byte path: {[(str(ret)[:40], [x[0] for x in st.log][-3:]) for st, ret in res][:2]}")
        return
    ok, why = bool(res), "no completed path"
    nb = 0
    for st, ret in res:
        decs = {x[2]: x[1] for x in st.log if x[0] == "decode"}
        for b in [x for x in st.log if x[0] == "build"]:
            nb += 1
            args = b[2]
            got = [decs.get(getattr(args[0], "obj", None)), decs.get(getattr(args[1], "obj", None)), getattr(args[2], "obj", None), getattr(args[3], "obj", None)]
            want = [state["objs"][n_] for n_ in names]
            if got != want:
                ok, why = False, f"tuple built from {got}, the entry's strings are {want} (device, mount point, type, options)"
    trunc = [f for f in I.findings if "getmntent_r" in f[0]]
    for f in trunc:
        ctx.external("mount-entry-not-truncated", False, {}, detail=f[0])
    if not trunc:
        ctx.external("mount-entry-not-truncated", True)
    I.findings = [f for f in I.findings if "getmntent_r" not in f[0]]
    report(ctx, I, ["memory-in-bounds", "cstring-within-record"], lambda m: {})
    ctx.external("partitions-tuple-fields", ok and nb > 0, {}, detail=why)


# ---- Python side ---------------------------------------------------------------------------------------------------------------

FSTYPES = ["ext4", "tmpfs", "zfs", "proc"]


@harness("C17.partitions_py", quick=[dict(n=2)], thorough=[dict(n=3)])
def partitions_py(ctx, n):
    """disk_partitions(): each mount entry's device, mount point, type and options; only entries with a device and a disk-backed
    filesystem type unless all=True"""
    k = simk.Kernel(ctx)
    simk.system_files(k)
    nodev = {t: ctx.flag(f"nodev_{t}") for t in FSTYPES}
    k.files["/proc/filesystems"] = "".join(("nodev\t" if nodev[t] else "\t") + t + "\n" for t in FSTYPES)
    ents = []
    for i in range(n):
        if i == 0:       # one symbolic entry, the others concrete
            dev = ctx.choice(f"dev{i}", ["/dev/sda1", "none", "", "tmpfs", "pool/data"])
            fst = ctx.choice(f"fs{i}", FSTYPES)
        else:
            dev, fst = [("/dev/sdb1", "ext4"), ("none", "proc"), ("pool/x", "zfs")][(i - 1) % 3]
        ents.append((dev, f"/mnt/{i}", fst, "rw,relatime"))
    all_ = ctx.flag("all")
    k.files["/etc/mtab"] = ""

    class Cext:
        def __getattr__(self, name):
            return getattr(_pslinux_cext, name)

        @staticmethod
        def disk_partitions(path):
            return list(ents)

    _pslinux_cext = _pslinux.cext
    with k.installed(full=False, extra=[(_pslinux, "cext", Cext())]):
        got = ctx.guard("partitions-filter", psutil.disk_partitions, all=all_)
    disk_backed = {t for t in FSTYPES if not nodev[t]} | ({"zfs"} if nodev["zfs"] else set())
    want = []
    for dev, mp, fst, opts in ents:
        d = "" if dev == "none" else dev
        if not all_ and (not d or fst not in disk_backed):
            continue
        want.append((d, mp, fst, opts))
    ctx.prove([tuple(g)[:4] for g in got] == want, "partitions-filter", detail=f"all={all_} got={[tuple(g)[:4] for g in got]} want={want}")


@harness("C17.users_py")
def users_py(ctx):
    k = simk.Kernel(ctx)
    simk.system_files(k)
    tty = ctx.choice("tty", ["pts/0", "", ":0"])
    host = ctx.choice("host", ["localhost", "10.0.0.5", ""])
    ts, pid = ctx.int("tstamp", 0, 2**40), ctx.int("pid", 0, 2**22)

    class Cext:
        def __getattr__(self, name):
            return getattr(_real, name)

        @staticmethod
        def users():
            return [("alice", tty, host, ts, pid)]

    _real = _pslinux.cext
    with k.installed(full=False, extra=[(_pslinux, "cext", Cext())]):
        got = psutil.users()
    ctx.prove(len(got) == 1 and got[0].name == "alice" and got[0].terminal == (tty or None) and got[0].host == host and ctx.eq(got[0].started, ts) and ctx.eq(got[0].pid, pid), "users-tuple", detail=f"{got}")


NETDEV_HDR = "Inter-|   Receive                                                |  Transmit\n face |bytes    packets errs drop fifo frame compressed multicast|bytes    packets errs drop fifo colls carrier compressed\n"


def _nic_world(ctx, nnic):
    k = simk.Kernel(ctx)
    simk.system_files(k)
    names = [f"eth{i}" for i in range(nnic)]
    k.files["/proc/net/dev"] = NETDEV_HDR + "".join(f"{n:>6}: " + " ".join(str(100 + j) for j in range(16)) + "\n" for n in names)
    return k, names


@harness("C17.net_if_stats_py", quick=[dict(nnic=2)], thorough=[dict(nnic=1), dict(nnic=2), dict(nnic=3)])
def net_if_stats_py(ctx, nnic):
    """net_if_stats() (Linux) agrees with what the native layer reports per listed interface: one entry per interface (one that
    vanished -- ENODEV -- is skipped, any other error propagates), isup = the kernel's 'running' flag, duplex constant by the native
    code, speed and MTU passed through, flags joined in order.  One interface symbolic at a time."""
    import errno as _errno

    k, names = _nic_world(ctx, nnic)
    real_posix, real_cext = _pslinux.cext_posix, _pslinux.cext
    FLAGSETS = [["up", "broadcast", "running", "multicast"], ["up", "broadcast", "multicast"], [], ["running"], ["up", "pointopoint", "noarp"]]
    which = ctx.choice("which", list(range(nnic)))
    mtu, speed, flags, duplex = [1500] * nnic, [1000] * nnic, [FLAGSETS[0]] * nnic, [real_cext.DUPLEX_FULL] * nnic
    mtu[which], speed[which] = ctx.int("mtu", 0, 2**31 - 1), ctx.int("speed", 0, 2**31 - 1)
    flags[which] = ctx.choice("flags", FLAGSETS)
    duplex[which] = ctx.choice("duplex", [real_cext.DUPLEX_FULL, real_cext.DUPLEX_HALF, real_cext.DUPLEX_UNKNOWN])
    fail = ctx.choice("fail", [None, ("mtu", _errno.ENODEV), ("flags", _errno.ENODEV), ("duplex", _errno.ENODEV), ("mtu", _errno.EPERM), ("duplex", _errno.EINVAL)])

    def boom(what, name):
        if fail is not None and fail[0] == what and name == names[which]:
            raise simk.oserr(fail[1])

    class Posix:
        def __getattr__(self, n):
            return getattr(real_posix, n)

        @staticmethod
        def net_if_mtu(name):
            boom("mtu", name)
            return mtu[names.index(name)]

        @staticmethod
        def net_if_flags(name):
            boom("flags", name)
            return list(flags[names.index(name)])

        @staticmethod
        def net_if_is_running(name):
            return "running" in flags[names.index(name)]

    class Cext:
        def __getattr__(self, n):
            return getattr(real_cext, n)

        @staticmethod
        def net_if_duplex_speed(name):
            boom("duplex", name)
            i = names.index(name)
            return (duplex[i], speed[i])

    with k.installed(full=False, extra=[(_pslinux, "cext", Cext()), (_pslinux, "cext_posix", Posix())]):
        try:
            st_ = ctx.guard("net_if_stats", psutil.net_if_stats, expect=(OSError,))
            raised = None
        except OSError as e:
            st_, raised = None, e
    if fail is not None and fail[1] != _errno.ENODEV:
        ctx.prove(raised is not None and raised.errno == fail[1], "net_if_stats", detail=f"error {fail} must propagate; got {st_}")
        return
    ctx.prove(raised is None, "net_if_stats", detail=f"unexpected {raised!r} under {fail}")
    if raised is not None:
        return
    DUP = {real_cext.DUPLEX_FULL: psutil.NIC_DUPLEX_FULL, real_cext.DUPLEX_HALF: psutil.NIC_DUPLEX_HALF, real_cext.DUPLEX_UNKNOWN: psutil.NIC_DUPLEX_UNKNOWN}
    want_names = [n for i, n in enumerate(names) if not (fail is not None and i == which)]
    ctx.prove(sorted(st_) == sorted(want_names), "net_if_stats", detail=f"interfaces {sorted(st_)} expected {want_names}")
    for n in want_names:
        if n not in st_:
            continue
        i = names.index(n)
        e = st_[n]
        ctx.prove(ctx.all([e.isup == ("running" in flags[i]), e.duplex == DUP[duplex[i]], ctx.eq(e.speed, speed[i]), ctx.eq(e.mtu, mtu[i]), e.flags == ",".join(flags[i])]),
                  "net_if_stats", detail=f"{n}: {e} vs flags={flags[i]} duplex={duplex[i]} speed={speed[i]} mtu={mtu[i]}")


@harness("C17.net_if_addrs_py", quick=[dict(nrec=2)], thorough=[dict(nrec=1), dict(nrec=2), dict(nrec=3)])
def net_if_addrs_py(ctx, nrec):
    """net_if_addrs() (Linux front end): addresses grouped per interface in family order, every field of the native record passed
    through, AF_PACKET shown as AF_LINK with the MAC padded to six groups.  One record symbolic, the others concrete."""
    import socket

    k, names = _nic_world(ctx, 2)
    real_posix = _pslinux.cext_posix
    fams = [int(socket.AF_INET), int(socket.AF_INET6), 17, 99]
    which = ctx.choice("which", list(range(nrec)))
    fixed = [("eth0", 2, "10.0.0.1", "255.0.0.0", "10.255.255.255", None), ("eth1", 17, "00:11:22:33:44:55", None, "ff:ff:ff:ff:ff:ff", None), ("eth0", 10, "fe80::1%eth0", "ffff::", None, None)]
    recs = []
    for r in range(nrec):
        if r != which:
            recs.append(fixed[r])
            continue
        nm = names[ctx.choice("nic", [0, 1])]
        fam = ctx.choice("fam", fams)
        addr = ctx.choice("mac", ["00:11:22:33:44:55", "00:11:22", "aa", "00:11:22:33:44:55:66:77"]) if fam == 17 else {2: "10.0.9.1", 10: "fe80::9%eth0"}.get(fam, "x9")
        mask = ctx.choice("mask", [None, "255.255.255.0"])
        bro, ptp = ctx.choice("bp", [(None, None), ("10.0.0.255", None), (None, "10.9.9.9")])
        recs.append((nm, fam, addr, mask, bro, ptp))

    class Posix:
        def __getattr__(self, n):
            return getattr(real_posix, n)

        @staticmethod
        def net_if_addrs():
            return list(recs)

    # _pslinux binds `net_if_addrs = cext_posix.net_if_addrs` at import time: the native entry point is replaced under that name
    with k.installed(full=False, extra=[(_pslinux, "cext_posix", Posix()), (_pslinux, "net_if_addrs", Posix.net_if_addrs)]):
        ad = ctx.guard("net_if_addrs", psutil.net_if_addrs)
    want = {}
    for nm, fam, addr, mask, bro, ptp in sorted(recs, key=lambda x: x[1]):
        if fam == 17:
            while addr.count(":") < 5:
                addr += ":00"
            fam_ = psutil.AF_LINK
        else:
            try:
                fam_ = socket.AddressFamily(fam)
            except ValueError:
                fam_ = fam
        want.setdefault(nm, []).append((fam_, addr, mask, bro, ptp))
    got = {n: [tuple(x) for x in v] for n, v in ad.items()}
    ctx.prove(got == want, "net_if_addrs", detail=f"got {got} want {want}")
