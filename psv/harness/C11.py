"""C11 — net_connections(): every socket once, right kind, right addresses, right owner.

Real code executed: psutil.net_connections/_check_conn_kind, Process.net_connections, _pslinux.NetConnections.retrieve/process_inet/
process_unix/decode_address/get_proc_inodes/get_all_inodes, _pslinux.pids, readlink, socktype_to_enum.
"""
import socket

import z3

from psv import seq, simk, sym
from psv.run import harness
from psv.seq import SymSeq
from psv.simk import _common, _pslinux, psutil

AF_INET, AF_INET6, AF_UNIX = socket.AF_INET, socket.AF_INET6, socket.AF_UNIX
STREAM, DGRAM, SEQPACKET = socket.SOCK_STREAM, socket.SOCK_DGRAM, socket.SOCK_SEQPACKET

# the documented table of psutil.net_connections(kind), re-stated: kind -> set of (family, type); None = any type
KIND = {
    "inet": {(AF_INET, STREAM), (AF_INET, DGRAM), (AF_INET6, STREAM), (AF_INET6, DGRAM)},
    "inet4": {(AF_INET, STREAM), (AF_INET, DGRAM)}, "inet6": {(AF_INET6, STREAM), (AF_INET6, DGRAM)},
    "tcp": {(AF_INET, STREAM), (AF_INET6, STREAM)}, "tcp4": {(AF_INET, STREAM)}, "tcp6": {(AF_INET6, STREAM)},
    "udp": {(AF_INET, DGRAM), (AF_INET6, DGRAM)}, "udp4": {(AF_INET, DGRAM)}, "udp6": {(AF_INET6, DGRAM)},
    "unix": {(AF_UNIX, None)},
}
KIND["all"] = set().union(*KIND.values())
TCP_STATE = {1: "ESTABLISHED", 2: "SYN_SENT", 3: "SYN_RECV", 4: "FIN_WAIT1", 5: "FIN_WAIT2", 6: "TIME_WAIT", 7: "CLOSE", 8: "CLOSE_WAIT", 9: "LAST_ACK", 10: "LISTEN", 11: "CLOSING"}

META = dict(
    assumptions=[
        "/proc/net/{tcp,udp}[6] rows are `sl local rem st ... inode` with addresses as %08X words of the in-memory (network-order) address printed in host order (little endian) and %04X ports; /proc/net/unix rows are `Num RefCount Protocol Flags Type St Inode [Path]`",
        "socket.inet_ntop / base64.b16decode / struct.pack,unpack are replaced by byte-permutation stubs in the address harness: the textual form is libc's on the bytes handed over (trusted)",
        "a process holds a socket iff /proc/<pid>/fd/<n> links to socket:[inode]",
        "kind table re-stated from the documentation; for kind='unix' any socket type is accepted",
    ],
    stubs=["open() of /proc/net/*", "os.listdir/readlink over /proc/<pid>/fd", "base64/struct/socket in the address harness"],
    bounds=dict(quick=dict(address="every IPv4/IPv6 address byte and every port symbolic", table="2 sockets (one symbolic over 5 tables x 11 TCP states x 3 unix types x 3 ports), 2 processes with one symbolic descriptor each, all 11 kinds",
                           kind_string="symbolic strings of length 0..5 different from the 11 names", unix_path="symbolic printable path of length 0..3 (space and @ included)"),
                thorough=dict(address="as quick", table="as quick + 3 sockets", kind_string="length 0..6", unix_path="length 0..6")),
    outside=["more than 3 sockets", "TCP state codes other than 01..0B", "big-endian hosts"],
    labels=["network-order-bytes-to-inet_ntop", "port", "empty-iff-port-0", "rows-exact", "per-process-rows", "unknown-kind-ValueError", "unix-path"],
)


# ---- (a) address decoding -------------------------------------------------------------------------------------------

class B16:
    def __init__(self, reg):
        self.reg = reg

    def b16decode(self, s):
        s = bytes(s)
        if s in self.reg:
            return self.reg[s]
        import base64
        return base64.b16decode(s)


class StructP:
    @staticmethod
    def _e(fmt):
        assert fmt in ("<4I", ">4I"), fmt
        return fmt[0]

    def unpack(self, fmt, data):
        e = self._e(fmt)
        it = SymSeq.of(data).items if not isinstance(data, bytes) else list(data)
        return tuple(tuple(it[4 * w: 4 * w + 4] if e == ">" else it[4 * w: 4 * w + 4][::-1]) for w in range(4))   # a word = its 4 bytes, most significant first

    def pack(self, fmt, *words):
        e = self._e(fmt)
        out = []
        for w in words:
            out.extend(w if e == ">" else w[::-1])
        return SymSeq(out, "bytes").norm()


class SockP:
    AF_INET, AF_INET6, AF_UNIX, SOCK_STREAM, SOCK_DGRAM = AF_INET, AF_INET6, AF_UNIX, STREAM, DGRAM

    def __init__(self):
        self.calls = []

    def inet_ntop(self, fam, data):
        self.calls.append((fam, data))
        return ("IP", fam, len(self.calls) - 1)


@harness("C11.address", quick=[dict(family=int(AF_INET)), dict(family=int(AF_INET6))])
def address(ctx, family):
    n = 4 if family == AF_INET else 16
    addr = [ctx.int(f"b{i}", 0, 255) for i in range(n)]          # network-order address bytes of the socket
    port = ctx.int("port", 0, 65535)
    host_bytes = []
    for w in range(n // 4):                                      # each 32-bit word printed with %08X in host (little-endian) order
        host_bytes.extend(addr[4 * w: 4 * w + 4][::-1])
    hexph = b"A" * (2 * n)                                       # placeholder for the hex text of the address
    mem = SymSeq([x.t if sym.is_sym(x) else x for x in host_bytes], "bytes").norm()
    sockp = SockP()
    k = simk.Kernel(ctx)
    with k.installed(extra=[(_pslinux, "base64", B16({hexph: mem})), (_pslinux, "struct", StructP()), (_pslinux, "socket", sockp)]):
        text = hexph.decode() + ":" + k.num(port, text=True, base=16)
        r = ctx.guard("decode-no-exception", _pslinux.NetConnections.decode_address, text, family)
    if isinstance(r, tuple) and r == ():
        ctx.prove(ctx.eq(port, 0), "empty-iff-port-0")
        return
    ctx.prove(ctx.neg(ctx.eq(port, 0)), "empty-iff-port-0")
    ctx.prove(ctx.eq(r.port, port), "port")
    fam, data = sockp.calls[r.ip[2]]
    got = SymSeq.of(data).items if not isinstance(data, bytes) else list(data)
    ctx.prove(fam == family and len(got) == n and ctx.all([ctx.eq(sym.SymInt(g) if not isinstance(g, int) else g, a) for g, a in zip(got, addr)]), "network-order-bytes-to-inet_ntop")


# ---- (b) socket table ---------------------------------------------------------------------------------------------------

HDR_INET = "  sl  local_address rem_address   st tx_queue rx_queue tr tm->when retrnsmt   uid  timeout inode\n"
HDR_UNIX = "Num       RefCount Protocol Flags    Type St Inode Path\n"
ADDR4 = {0: ("00000000:0000", ()), 22: ("0100007F:0016", ("127.0.0.1", 22)), 65535: ("0500000A:FFFF", ("10.0.0.5", 65535))}
ADDR6 = {0: ("00000000000000000000000000000000:0000", ()), 22: ("00000000000000000000000001000000:0016", ("::1", 22)),
         65535: ("0000000000000000FFFF00000100007F:FFFF", ("::ffff:127.0.0.1", 65535))}
UNIX_PATHS = ["", "/run/a.sock", "@abstract", "/tmp/with space/s", "@ a b"]


def render_tables(k, socks):
    files = {t: (HDR_UNIX if t == "unix" else HDR_INET) for t in ("tcp", "tcp6", "udp", "udp6", "unix")}
    for i, s in enumerate(socks):
        if s["table"] == "unix":
            files["unix"] += f"0000000000000000: 00000002 00000000 00010000 {s['utype']:04X} 01 {s['inode']}" + (f" {s['path']}" if s["path"] != "" else "") + "\n"
        else:
            A = ADDR6 if s["table"].endswith("6") else ADDR4
            files[s["table"]] += f"   {i}: {A[s['lport']][0]} {A[s['rport']][0]} {s['state']:02X} 00000000:00000000 00:00000000 00000000  1000        0 {s['inode']} 1 0000000000000000 100 0 0 10 0\n"
    for t, body in files.items():
        k.files[f"/proc/net/{t}"] = body


def expected_rows(socks, holders, kind, only_pid=None):
    rows = set()
    for s in socks:
        if s["table"] == "unix":
            fam, typ = AF_UNIX, s["utype"]
            key_ok = (AF_UNIX, None) in KIND[kind]
        else:
            fam = AF_INET6 if s["table"].endswith("6") else AF_INET
            typ = STREAM if s["table"].startswith("tcp") else DGRAM
            key_ok = (fam, typ) in KIND[kind]
        if not key_ok:
            continue
        hs = [(p, fd) for (p, fd), ino in holders.items() if ino == s["inode"]]
        if only_pid is not None:
            hs = [h for h in hs if h[0] == only_pid]
            if not hs:
                continue
        if s["table"] == "unix":
            la, ra, st = s["path"], "", "NONE"
            for p, fd in (hs or [(None, -1)]):
                rows.add((fd, fam, typ, la, ra, st, p))
        else:
            A = ADDR6 if s["table"].endswith("6") else ADDR4
            la, ra = A[s["lport"]][1], A[s["rport"]][1]
            st = TCP_STATE[s["state"]] if typ == STREAM else "NONE"
            rows.add(tuple([(fd, fam, typ, la, ra, st, p) for p, fd in (hs or [(None, -1)])]))   # inet: one row, any one of the holders
    return rows


def rows_match(got, want, per_process):
    got = [tuple(g) + (() if not per_process else (None,)) for g in got]
    norm = []
    for g in got:
        fd, fam, typ, la, ra, st = g[:6]
        pid = g[6]
        norm.append((fd, int(fam), int(typ), tuple(la) if isinstance(la, tuple) else la, tuple(ra) if isinstance(ra, tuple) else ra, st, pid))
    if len(norm) != len(set(norm)) or len(norm) != len(want):
        return False
    remaining = list(norm)
    for w in want:
        alts = list(w) if isinstance(w[0], tuple) else [w]
        hit = None
        for a in alts:
            a2 = (a[0], int(a[1]), int(a[2]), a[3], a[4], a[5], None if per_process else a[6])
            if a2 in remaining:
                hit = a2
                break
        if hit is None:
            return False
        remaining.remove(hit)
    return not remaining


def build_world(ctx, k, nsock, kernel_owned=False, decoy_file=False):
    socks = []
    for i in range(nsock):
        if i == 0:
            table = ctx.choice("table", ["tcp", "tcp6", "udp", "udp6", "unix"])
            s = dict(table=table, inode=5000 + i, state=ctx.choice("state", list(range(1, 12))) if table.startswith("tcp") else 7,
                     lport=ctx.choice("lport", [0, 22, 65535]) if table != "unix" else 0, rport=ctx.choice("rport", [0, 22]) if table != "unix" else 0,
                     utype=ctx.choice("utype", [1, 2, 5]) if table == "unix" else 1, path=ctx.choice("upath", UNIX_PATHS) if table == "unix" else "")
        else:
            s = [dict(table="tcp", inode=5001, state=10, lport=22, rport=0, utype=1, path=""), dict(table="unix", inode=5002, state=7, lport=0, rport=0, utype=2, path="/run/b.sock")][(i - 1) % 2]
            s = dict(s, inode=5000 + i)
        socks.append(s)
    holders = {}
    for pid in (10, 11):
        simk.full_process(k, pid)
        for name in [n for n in k.links if n.startswith(f"/proc/{pid}/fd/")]:
            del k.links[name]
        fds = {}
        target = ctx.choice(f"holds{pid}", list(range(nsock)) + ["file"])
        fds[3] = target
        fds[4] = 0 if pid == 11 else "file"            # pid 11 also holds socket 0 on fd 4
        fds[5] = (nsock - 1) if pid == 10 else "file"
        k.dirs[f"/proc/{pid}/fd"] = [str(fd) for fd in fds]
        for fd, tg in fds.items():
            if tg == "file":
                # an ordinary file -- possibly one whose NAME contains the text of a socket link ("socket:[<inode of socket 0>]"): holding
                # it does not make the process a holder of that socket
                decoy = pid == 10 and fd == 4 and decoy_file
                k.links[f"/proc/{pid}/fd/{fd}"] = f"/data/socket:[{socks[0]['inode']}]" if decoy else "/data/file"
            else:
                k.links[f"/proc/{pid}/fd/{fd}"] = f"socket:[{socks[tg]['inode']}]"
                holders[(pid, fd)] = socks[tg]["inode"]
    k.stats["/data/file"] = simk.StatResult()
    k.dirs["/proc"] = ["10", "11", "self", "net", "stat"]
    if kernel_owned:
        # sockets the kernel itself owns (TIME_WAIT, orphaned FIN_WAIT ...) are all printed with inode 0: distinct sockets, no holder
        socks.append(dict(table="tcp", inode=0, state=6, lport=22, rport=22, utype=1, path=""))
        socks.append(dict(table="tcp", inode=0, state=6, lport=65535, rport=22, utype=1, path=""))
        # ... and so is a UNIX stream connection still waiting in a listener's backlog (connect() done, accept() not yet)
        socks.append(dict(table="unix", inode=0, state=7, lport=0, rport=0, utype=1, path="/run/backlog.sock"))
    render_tables(k, socks)
    return socks, holders


@harness("C11.table", quick=[dict(nsock=2), dict(nsock=1, v6=False), dict(nsock=1, kernel_owned=True), dict(nsock=1, decoy_file=True)],
         thorough=[dict(nsock=2), dict(nsock=3), dict(nsock=2, v6=False), dict(nsock=2, kernel_owned=True), dict(nsock=2, decoy_file=True)])
def table(ctx, nsock, v6=True, kernel_owned=False, decoy_file=False):
    """v6: what supports_ipv6() answers; kernel_owned: two further inode-0 sockets; decoy_file: a regular file named like a socket link"""
    k = simk.Kernel(ctx)
    simk.system_files(k)
    socks, holders = build_world(ctx, k, nsock, kernel_owned, decoy_file)
    kind = ctx.choice("kind", sorted(KIND))
    # whether a ::1 socket can be bound (supports_ipv6()) says nothing about what /proc/net/tcp6 lists: the rows are the same either way
    with k.installed(extra=[(_common, "supports_ipv6", lambda: v6), (_pslinux, "supports_ipv6", lambda: v6)]):
        got = ctx.guard("rows-exact", psutil.net_connections, kind)
        per = ctx.guard("per-process-rows", psutil.Process(11).net_connections, kind)
    ctx.prove(rows_match(got, expected_rows(socks, holders, kind), False), "rows-exact", detail=f"kind={kind} got={sorted(map(str, got))}")
    ctx.prove(rows_match(per, expected_rows(socks, holders, kind, only_pid=11), True), "per-process-rows", detail=f"kind={kind} got={sorted(map(str, per))}")


@harness("C11.threads", quick=[dict(P=1, kind="tcp")], thorough=[dict(P=2, kind="tcp"), dict(P=1, kind="all"), dict(P=1, kind="unix")], timeout_ms=5000)
def threads(ctx, P, kind):
    """the system-wide call and a per-process call running at once (source-line granularity, at most P pre-emptions): each
    returns exactly what it returns alone -- the calls do not see each other's filter or owner table"""
    from psv import sched

    k = simk.Kernel(ctx)
    simk.system_files(k)
    socks = [dict(table="tcp", inode=5000, state=10, lport=22, rport=0, utype=1, path=""), dict(table="unix", inode=5001, state=7, lport=0, rport=0, utype=1, path="/run/b.sock")]
    holders = {}
    for pid, ino in ((10, 5000), (11, 5001)):
        simk.full_process(k, pid)
        for name in [n for n in k.links if n.startswith(f"/proc/{pid}/fd/")]:
            del k.links[name]
        k.dirs[f"/proc/{pid}/fd"] = ["3"]
        k.links[f"/proc/{pid}/fd/3"] = f"socket:[{ino}]"
        holders[(pid, 3)] = ino
    k.dirs["/proc"] = ["10", "11", "self", "net", "stat"]
    render_tables(k, socks)
    S = sched.Scheduler(ctx, budget=P, files={simk.REPO + "/psutil/_pslinux.py"})
    with k.installed(extra=[(_common, "supports_ipv6", lambda: True)]):
        p11 = psutil.Process(11)
        res = S.run([lambda: psutil.net_connections(kind), lambda: p11.net_connections(kind)])
    for i in (0, 1):
        ctx.prove(res[i][0] == "ok", "threads-no-exception", detail=f"thread {i}: {res[i][1]!r} pre-emptions {S.trace}")
    if res[0][0] == "ok":
        ctx.prove(rows_match(res[0][1], expected_rows(socks, holders, kind), False), "threads-rows-exact", detail=f"system-wide: {sorted(map(str, res[0][1]))} pre-emptions {S.trace}")
    if res[1][0] == "ok":
        ctx.prove(rows_match(res[1][1], expected_rows(socks, holders, kind, only_pid=11), True), "threads-rows-exact", detail=f"per-process: {sorted(map(str, res[1][1]))} pre-emptions {S.trace}")


# ---- (c) arbitrary kind strings ---------------------------------------------------------------------------------------------

KIND_WITNESSES = ["", "l", "net", "cp6", ", ", "tcp, udp", "all ", " all", "ALL", "inet44", "unix\n", "tcp\x00", "i", "4", "udp,"]


@harness("C11.kind", quick=[dict(L=L, w=None) for L in (0, 1, 3, 4, 5)] + [dict(L=0, w=i) for i in range(len(KIND_WITNESSES))],
         thorough=[dict(L=L, w=None) for L in range(7)] + [dict(L=0, w=i) for i in range(len(KIND_WITNESSES))])
def kind(ctx, L, w):
    """every string that is not one of the 11 names raises ValueError before anything is read (symbolic strings of length L, plus
    concrete witnesses such as substrings / concatenations of valid names)"""
    k = simk.Kernel(ctx)
    simk.system_files(k)
    simk.full_process(k, 11)
    kd = seq.fresh(ctx, "kind", L, "str", lo=32, hi=126) if w is None else KIND_WITNESSES[w]
    for name in KIND:
        if len(name) == L and w is None:
            if ctx.symbolic:
                ctx.assume(sym.SymBool(z3.Not(SymSeq.of(kd).eq_term(name))))
            else:
                ctx.assume(kd != name)
    with k.installed():
        p = psutil.Process(11)
        n0 = k.naccess_total
        outcomes = []
        for fn in (psutil.net_connections, p.net_connections):
            try:
                fn(kd)
                outcomes.append("returned")
            except ValueError:
                outcomes.append("ValueError")
            except TypeError as e:
                if "SymSeq" in str(e):
                    raise sym.HarnessError(f"a real str method was handed the symbolic kind string: {e}") from None
                outcomes.append(f"TypeError: {e}")
            except Exception as e:  # noqa: BLE001
                outcomes.append(f"{type(e).__name__}: {e}")
        n1 = k.naccess_total
    ctx.prove(outcomes == ["ValueError", "ValueError"] and n1 == n0, "unknown-kind-ValueError", detail=f"{outcomes}")


# ---- (d) UNIX socket paths ---------------------------------------------------------------------------------------------------

@harness("C11.unix_path", quick=[dict(L=L) for L in (0, 1, 2, 3)], thorough=[dict(L=L) for L in range(7)])
def unix_path(ctx, L):
    """a bound UNIX socket is reported with its path, whatever printable characters (spaces, '@') it contains"""
    k = simk.Kernel(ctx)
    simk.system_files(k)
    simk.full_process(k, 11)
    path = seq.fresh(ctx, "upath", L, "str", lo=32, hi=126)
    if L:
        first = SymSeq.of(path)[0]
        ctx.assume(ctx.neg(T(first, " ")))        # the kernel separates inode and path with one space; a bound name does not start with one
    k.files["/proc/net/unix"] = HDR_UNIX + "0000000000000000: 00000002 00000000 00010000 0001 01 7777" + ((" " + path) if L else "") + "\n"
    k.dirs["/proc"] = ["11"]
    with k.installed(extra=[(_common, "supports_ipv6", lambda: True)]):
        got = ctx.guard("unix-path", psutil.net_connections, "unix")
    ctx.observe("unix", [tuple(g) for g in got])
    ctx.prove(len(got) == 1 and T(got[0].laddr, path) and got[0].raddr == "" and got[0].pid is None and got[0].fd == -1 and got[0].status == "NONE", "unix-path",
              detail=lambda m: f"laddr={got[0].laddr!r}" if got else "no row")


def T(a, b):
    if isinstance(a, SymSeq) or isinstance(b, SymSeq):
        if not isinstance(a, (str, SymSeq)) or not isinstance(b, (str, SymSeq)):
            return False
        return sym.SymBool(SymSeq.of(a).eq_term(b))
    return a == b
