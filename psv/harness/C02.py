"""C02 — Process ==, hash() and is_running() follow the process, not the PID.

Real code executed: psutil.Process.__init__/_init/_get_ident/__eq__/__ne__/__hash__/is_running/create_time, psutil.boot_time,
psutil.process_iter, psutil.pids, _pslinux.Process.create_time/_parse_stat_file, _pslinux.boot_time (writes BOOT_TIME), wrap_exceptions.
"""
import errno

from psv import simk
from psv.run import harness
from psv.simk import psutil

EVENTS = ["exit", "reuse", "clock_step", "boot_time()", "new_object", "is_running(0)", "process_iter", "create_time(0)", "zombie"]
PID = 77

META = dict(
    assumptions=[
        "successive incarnations of one PID have pairwise different start ticks (the assumption psutil documents in _get_ident)",
        "a system clock step changes the kernel's published boot time (the btime line of /proc/stat) to an arbitrary new value and leaves every process's start ticks unchanged",
        "kernel events happen between psutil calls, not inside one (inside one call is C03)",
        "hash() of the identity is modelled as injective on the values hashed along a path (equal => same hash, different => different hash); collisions are outside the claim",
        "times are exact reals (ticks/100 + btime)",
    ],
    stubs=["open() of /proc/<pid>/stat and /proc/stat", "os.listdir('/proc')", "hash() of symbolic reals (injective model)"],
    bounds=dict(quick=dict(history="K<=3 events over one PID from {exit, zombie, reuse, clock step, boot_time(), new object, is_running(), process_iter(), create_time(), rename}; process names from 4 witnesses with parentheses/blanks/newline", objects="<= 4"),
                thorough=dict(history="K<=5", objects="<= 6")),
    outside=["two incarnations of a PID started in the same clock tick", "longer histories", "hash collisions"],
    labels=["eq-iff-same-incarnation", "equal-hash", "different-incarnations-hash-apart", "is_running-follows-the-process", "is_running-stays-false"],
)


NAMES = [b"cat", b"job (retry) 2", b") (", b"a\nb c) S 1 2 3"]


SCRIPTS = [["exit", "reuse", "process_iter", "is_running(0)", "process_iter"], ["process_iter", "exit", "reuse", "is_running(0)", "process_iter", "new_object", "process_iter"],
           ["process_iter", "clock_step", "exit", "reuse", "process_iter", "is_running(0)", "clock_step", "process_iter"]]


@harness("C02.identity", quick=[dict(K=2, with_clock=True), dict(K=3, with_clock=False), dict(K=3, with_clock=True), dict(K=2, with_clock=False, names=True), dict(K=3, with_clock=False, popen=True)]
         + [dict(K=3, with_clock=False, ticks=t) for t in ([57, 58], [1000004, 1000005], [51204, 51205])] + [dict(K=len(s_), with_clock=True, script=s_) for s_ in SCRIPTS],
         thorough=[dict(K=len(s_), with_clock=True, script=s_, names=True) for s_ in SCRIPTS] + [dict(K=4, with_clock=True), dict(K=5, with_clock=False), dict(K=5, with_clock=True), dict(K=3, with_clock=True, names=True), dict(K=4, with_clock=False, names=True), dict(K=4, with_clock=True, popen=True)]
         + [dict(K=4, with_clock=True, ticks=t) for t in ([57, 58], [113, 114, 115], [1000004, 1000005, 1000006], [51204, 51205])])
def identity(ctx, K, with_clock, names=False, popen=False, ticks=None, script=None):
    """names: every incarnation carries a process name chosen from NAMES (parentheses, blanks, a newline, text that looks like the
    rest of a stat record) and may rename itself (event `rename`): the identity must not depend on the name.
    popen: the first object is a psutil.Popen (a Process subclass wrapping a subprocess.Popen stand-in whose returncode stays None:
    the child is reaped by somebody else -- os.waitpid() elsewhere, a SIGCHLD handler).
    ticks: concrete start ticks of successive incarnations instead of symbolic ones, so that the real float arithmetic of the code
    runs on them (adjacent tick values whose float images are close): a sampled witness, outside the for-all claim.
    script: a fixed event skeleton (start ticks, boot times stay symbolic) for histories longer than the free ones."""
    k = simk.Kernel(ctx)
    simk.system_files(k)
    bt = [ctx.int("btime0", 10**9, 2 * 10**9)]
    inc = [ticks[0] if ticks else ctx.int("start0", 0, 10**7)]          # start ticks of successive incarnations of PID 77
    state = {"listed": True, "zombie": False, "inc": 0, "comm": ctx.choice("name0", NAMES) if names else b"cat"}
    simk.full_process(k, 1, ppid=0, comm="init")
    simk.full_process(k, PID)

    def stat_file():
        if not state["listed"]:
            raise simk.oserr(errno.ENOENT, f"/proc/{PID}/stat")
        return simk.stat_record(k, PID, state["comm"], b"Z" if state["zombie"] else b"S", {4: 1, 22: inc[state["inc"]]})

    k.files[f"/proc/{PID}/stat"] = stat_file
    k.files["/proc/stat"] = lambda: b"cpu  1 2 3 4 5 6 7 8 9 10\ncpu0 1 2 3 4 5 6 7 8 9 10\nbtime " + k.num(bt[-1]) + b"\n"
    k.dirs["/proc"] = ["1", str(PID)]
    objs = []      # (object, incarnation index)
    dead = set()   # objects already seen not running: must stay so
    events = EVENTS if with_clock else [e for e in EVENTS if e != "clock_step"]
    if names:
        events = events + ["rename"]
    log = []
    import contextlib

    class _Sub:                      # stands in for subprocess.Popen: the child is never reaped through this object
        pid, returncode, stdin, stdout, stderr = PID, None, None, None, None

        def __init__(self, *a, **kw):
            pass

        def poll(self):
            return None

    class _Subprocess:
        Popen = _Sub

    with k.installed(extra=[(psutil, "subprocess", _Subprocess)] if popen else []), contextlib.ExitStack() as stack:
        objs.append((psutil.Popen(["child"]) if popen else psutil.Process(PID), 0))
        if ctx.flag("first_object_inside_oneshot_block"):      # the history runs inside `with objs[0].oneshot():`
            stack.enter_context(objs[0][0].oneshot())
            log.append("with obj0.oneshot():")
        for i in range(K):
            ev = script[i] if script else ctx.choice(f"ev{i}", events)
            log.append(ev)
            if ev == "exit":
                state["listed"] = False
                state["zombie"] = False
                k.dirs["/proc"] = ["1"]
            elif ev == "zombie":
                if state["listed"]:
                    state["zombie"] = True
            elif ev == "reuse":
                if ticks:
                    if len(inc) >= len(ticks):
                        continue
                    n = ticks[len(inc)]
                else:
                    n = ctx.int(f"start{len(inc)}", 0, 10**7)
                    for old in inc:
                        ctx.assume(ctx.neg(ctx.eq(n, old)))
                inc.append(n)
                state.update(inc=len(inc) - 1, listed=True, zombie=False)
                if names:
                    state["comm"] = ctx.choice(f"name{len(inc) - 1}", NAMES)
                k.dirs["/proc"] = ["1", str(PID)]
            elif ev == "rename":
                state["comm"] = ctx.choice(f"name_at{i}", NAMES)
            elif ev == "clock_step":
                bt.append(ctx.int(f"btime{len(bt)}", 10**9, 2 * 10**9))
            elif ev == "boot_time()":
                psutil.boot_time()
            elif ev == "new_object":
                if state["listed"]:
                    objs.append((ctx.guard("new-object-no-exception", psutil.Process, PID), state["inc"]))
            elif ev == "is_running(0)":
                r = objs[0][0].is_running()
                want = state["listed"] and state["inc"] == 0
                ctx.prove(r == want, "is_running-follows-the-process", detail=f"history={log} got {r}, process listed={want}")
                if not r:
                    dead.add(0)
            elif ev == "process_iter":
                for x in list(psutil.process_iter()):
                    # the caller keeps what process_iter() hands out: an object it has just built denotes the current incarnation
                    if x.pid == PID and not any(x is o for o, _ in objs):
                        objs.append((x, state["inc"]))
            elif ev == "create_time(0)":
                try:
                    objs[0][0].create_time()
                except psutil.NoSuchProcess:
                    pass
        # final checks
        for ai, (a, ia) in enumerate(objs):
            for b, ib in objs:
                ctx.prove(bool(a == b) == (ia == ib), "eq-iff-same-incarnation", detail=f"history={log} incarnations {ia},{ib}: == gives {a == b}")
                ctx.prove(bool(a != b) == (ia != ib), "eq-iff-same-incarnation", detail=f"history={log} != operator")
                if ia == ib:
                    ctx.prove(hash(a) == hash(b), "equal-hash", detail=f"history={log}")
                else:
                    # "hash alike exactly when ...": objects of two incarnations of the PID do not (up to collisions of the real hash
                    # function, which the injective model leaves out)
                    ctx.prove(hash(a) != hash(b), "different-incarnations-hash-apart", detail=f"history={log} incarnations {ia},{ib}")
        for ai, (a, ia) in enumerate(objs):
            r = a.is_running()
            want = state["listed"] and state["inc"] == ia
            ctx.prove(r == want, "is_running-follows-the-process", detail=f"history={log} object of incarnation {ia}: is_running()={r}, its process listed={want}")
            if ai in dead:
                ctx.prove(r is False, "is_running-stays-false", detail=f"history={log}")


@harness("C02.own_pid")
def own_pid(ctx):
    """psutil.Process() -- the calling process -- before and after a fork: the child's object is the CHILD (its pid, its start), it is
    not equal to and does not hash like the parent's, whatever was asked about the own process before the fork"""
    k = simk.Kernel(ctx)
    simk.system_files(k)
    A, B = 4242, 4300
    sa, sb = ctx.int("parent_start", 0, 10**7), ctx.int("child_start", 0, 10**7)
    ctx.assume(sa <= sb)
    for pid, st_, ppid in ((A, sa, 1), (B, sb, A)):
        simk.full_process(k, pid, ppid=ppid)
        k.files[f"/proc/{pid}/stat"] = simk.stat_record(k, pid, b"py", b"S", {4: ppid, 22: st_})
    simk.full_process(k, 1, ppid=0, comm="init")
    k.dirs["/proc"] = ["1", str(A), str(B)]
    me = {"pid": A}
    with k.installed():
        k.os_proxy.getpid = lambda: me["pid"]
        warm = ctx.choice("before_the_fork", ["Process()", "Process().is_running()", "nothing"])
        parent_obj = psutil.Process(A)
        if warm != "nothing":
            own = psutil.Process()
            ctx.prove(own.pid == A and own == parent_obj and hash(own) == hash(parent_obj), "own-process-object", detail="before the fork")
            if warm.endswith("is_running()"):
                own.is_running()
        me["pid"] = B                       # fork(): from here on we are the child
        child = psutil.Process()
        ref = psutil.Process(B)
        ctx.prove(child.pid == B and child == ref and hash(child) == hash(ref), "own-process-object", detail="after the fork: Process() is the child")
        ctx.prove(child != parent_obj and not (child == parent_obj), "eq-iff-same-incarnation", detail="the child's object vs the parent's")
        ctx.prove(child.is_running() and parent_obj.is_running(), "is_running-follows-the-process")
