"""C16 — oneshot() and as_dict() change speed, never answers; safe across threads.

Real code executed: psutil.Process.oneshot/as_dict and the cached public methods (cpu_times, memory_info, ppid, uids),
_common.memoize_when_activated (wrapper, cache_activate, cache_deactivate), _pslinux.Process.oneshot_enter/oneshot_exit/
_parse_stat_file/_read_status_file/_read_smaps_file and the methods reading them.
"""
import sys as _sys

import errno

from psv import simk, sym
from psv.run import harness
from psv.simk import psutil

P = 77
METHODS = {"cpu_times": "stat", "ppid": "stat", "name": "stat", "num_threads": "status", "uids": "status", "gids": "status", "create_time": "stat", "memory_full_info": "smaps", "status": "stat"}

META = dict(
    assumptions=[
        "the kernel record changes only between psutil calls (a 'bump' event publishes a new version whose every numeral is a fresh symbolic value)",
        "a read counts against 'at most once per block' only when it is made by the block object's own cached source function: ppid() first runs the identity check of C01 through a temporary Process object, and create_time() is cached for the life of the object by design",
        "text->number boundary: digit placeholders; int/float shadowed in the psutil modules' globals",
    ],
    stubs=["open() of /proc/<pid>/{stat,status,smaps,smaps_rollup,statm} rendered at the current record version; each read is tagged with the psutil frame and object that issued it"],
    bounds=dict(quick=dict(sequence="K<=3 events from {8 methods, record change, nested block} with symbolic block entry/exit positions, with and without an exception inside the block", as_dict="symbolic subset of 5 attribute names, invalid name, non-collection"),
                thorough=dict(sequence="K<=4", as_dict="as quick")),
    outside=["longer sequences", "more than 2 threads / 2 pre-emptions; races inside one source line; the kernel record changing while two threads are inside calls"],
    labels=["value-from-first-read-version", "each-source-read-at-most-once-per-block", "fresh-read-outside-block", "cache-gone-after-exit", "as_dict-keys", "as_dict-invalid-name-ValueError", "as_dict-non-collection-TypeError", "as_dict-ad_value", "as_dict-NoSuchProcess-propagates", "results-belong-to-the-caller", "threads-no-spurious-error"],
)


class Versions:
    """record versions with fresh symbolic numerals; reads tagged by the issuing psutil frame"""

    def __init__(self, ctx, k):
        self.ctx, self.k, self.v, self.vals = ctx, k, 0, {}
        self.own_reads = {"stat": [], "status": [], "smaps": []}
        self.read_by = {"stat": [], "status": [], "smaps": []}      # which thread issued each of those reads (scheduler harness)
        self.who = lambda: None
        self.holder = {}

    def val(self, field):
        key = (self.v, field)
        if key not in self.vals:
            self.vals[key] = self.ctx.int(f"{field}_v{self.v}", 0, 2**40)
        return self.vals[key]

    def stat_file(self):
        return simk.stat_record(self.k, P, b"cat%d" % self.v, b"S", {4: self.val("ppid"), 14: self.val("utime"), 15: self.val("stime"), 22: 5000})

    def status_file(self):
        k = self.k
        return (b"Name:\tcat%d\nUmask:\t0022\nState:\tS (sleeping)\nUid:\t" + b"\t".join(k.num(self.val(f"uid{i}")) for i in range(4)) + b"\nGid:\t" + b"\t".join(k.num(self.val(f"gid{i}")) for i in range(4)) +
                b"\nThreads:\t" + k.num(self.val("threads")) + b"\nCpus_allowed_list:\t0-3\nvoluntary_ctxt_switches:\t1\nnonvoluntary_ctxt_switches:\t2\n") % self.v

    def smaps_file(self):
        k = self.k
        return (b"00400000-0040b000 r-xp 00000000 08:01 1234 /usr/bin/cat\nSize: 44 kB\nRss: 40 kB\nPss: " + k.num(self.val("pss")) + b" kB\nPrivate_Clean: " + k.num(self.val("priv")) +
                b" kB\nPrivate_Dirty: 0 kB\nSwap: " + k.num(self.val("swap")) + b" kB\nVmFlags: rd ex\n")

    def tagged(self, render, src):
        def f():
            fr = _sys._getframe(1)
            while fr is not None:       # a read counts for the block iff it is made by p._proc's own source function
                if fr.f_code.co_name in ("_parse_stat_file", "_read_status_file", "_read_smaps_file") and fr.f_locals.get("self") is self.holder.get("proc"):
                    self.own_reads[src].append(self.v)
                    self.read_by[src].append(self.who())
                    break
                fr = fr.f_back
            return render()
        return f

    def install(self):
        k = self.k
        k.files[f"/proc/{P}/stat"] = self.tagged(self.stat_file, "stat")
        k.files[f"/proc/{P}/status"] = self.tagged(self.status_file, "status")
        k.files[f"/proc/{P}/smaps"] = self.tagged(self.smaps_file, "smaps")
        k.files[f"/proc/{P}/smaps_rollup"] = simk.oserr(2, "smaps_rollup")        # force the per-mapping listing (the cached source)

    def check_value(self, ctx, e, r, v, label):
        g = lambda f: self.vals[(v, f)]     # noqa: E731
        if e == "cpu_times":
            ctx.prove(ctx.all([ctx.eq(r.user * 100, g("utime")), ctx.eq(r.system * 100, g("stime"))]), label, detail=e)
        elif e == "ppid":
            ctx.prove(ctx.eq(r, g("ppid")), label, detail=e)
        elif e == "num_threads":
            ctx.prove(ctx.eq(r, g("threads")), label, detail=e)
        elif e == "uids":
            ctx.prove(ctx.all([ctx.eq(r.real, g("uid0")), ctx.eq(r.effective, g("uid1")), ctx.eq(r.saved, g("uid2"))]), label, detail=e)
        elif e == "gids":
            ctx.prove(ctx.all([ctx.eq(r.real, g("gid0")), ctx.eq(r.effective, g("gid1")), ctx.eq(r.saved, g("gid2"))]), label, detail=e)
        elif e == "memory_full_info":
            ctx.prove(ctx.all([ctx.eq(r.pss, g("pss") * 1024), ctx.eq(r.uss, g("priv") * 1024), ctx.eq(r.swap, g("swap") * 1024)]), label, detail=e)
        elif e == "name":
            ctx.prove(r == f"cat{v}", label, detail=f"{e}: {r!r}, the record version first read is {v}")
        elif e == "status":
            ctx.prove(r == "sleeping", label, detail=e)


class Boom(Exception):
    pass


@harness("C16.sequence", quick=[dict(K=3, raise_inside=r) for r in (False, True)], thorough=[dict(K=4, raise_inside=r) for r in (False, True)])
def sequence(ctx, K, raise_inside):
    k = simk.Kernel(ctx)
    simk.system_files(k)
    simk.full_process(k, P)
    k.files["/proc/stat"] = "cpu  1 2 3 4 5 6 7 8 9 10\ncpu0 1 2 3 4 5 6 7 8 9 10\nbtime 1000\n"
    V = Versions(ctx, k)
    V.install()
    enter_at = ctx.choice("enter_at", list(range(K + 1)))
    exit_at = ctx.choice("exit_at", list(range(K + 1)))
    ctx.assume(enter_at <= exit_at)
    events = [ctx.choice(f"e{i}", list(METHODS) + ["bump", "nested", "repr"]) for i in range(K)]
    with k.installed():
        p = psutil.Process(P)
        V.holder["proc"] = p._proc
        block_first = {}
        opens_in_block = {"stat": 0, "status": 0, "smaps": 0}

        def do(i, inside):
            e = events[i]
            if e == "bump":
                V.v += 1
                return
            if e == "nested":
                if inside:
                    # (the nested block may itself be left by an exception that the outer block handles)
                    nested_boom = ctx.flag(f"nested_block_left_by_exception{i}")
                    try:
                        with p.oneshot():
                            if nested_boom:
                                raise Boom()
                    except Boom:
                        pass
                    ctx.prove(hasattr(p, "_cache") or hasattr(p._proc, "_cache"), "nested-exit-keeps-outer-block")
                return
            if e == "repr":
                # str()/repr() of the object (a log line in the middle of a block) asks name and status through a block of its own:
                # inside an enclosing block that changes nothing (the reads it makes are the block's reads)
                b_st = len(V.own_reads["stat"])
                ctx.guard("method-no-exception", str, p)
                a_st = len(V.own_reads["stat"])
                if inside:
                    opens_in_block["stat"] += a_st - b_st
                    if a_st > b_st:
                        block_first.setdefault("stat", V.v)
                    ctx.prove(hasattr(p, "_cache") and hasattr(p._proc, "_cache"), "nested-exit-keeps-outer-block", detail="after str(p) inside the block")
                return
            src = METHODS[e]
            before = len(V.own_reads[src])
            r = ctx.guard("method-no-exception", getattr(p, e))
            after = len(V.own_reads[src])
            if e == "create_time":
                # 5000 ticks / 100 + btime 1000; cached for the life of the object after its first call by design, so it
                # may or may not read -- when it does read inside a block, that read is the block's read of `stat`
                ctx.prove(ctx.eq(r, 1000 + 50), "create_time-lifetime-cached")
                if inside and after > before:
                    opens_in_block[src] += after - before
                    block_first.setdefault(src, V.v)
                return
            if inside:
                opens_in_block[src] += after - before
                v = block_first.setdefault(src, V.v if after > before else None)
                if v is None:
                    ctx.prove(False, "cached-without-read", detail=e)
                    return
                V.check_value(ctx, e, r, v, "value-from-first-read-version")
            else:
                ctx.prove(after >= before + 1, "fresh-read-outside-block", detail=e)
                V.check_value(ctx, e, r, V.v, "fresh-read-outside-block")

        for i in range(0, enter_at):
            do(i, False)
        try:
            with p.oneshot():
                for i in range(enter_at, exit_at):
                    do(i, True)
                if raise_inside:
                    raise Boom()
        except Boom:
            pass
        ctx.prove(all(n <= 1 for n in opens_in_block.values()), "each-source-read-at-most-once-per-block", detail=f"{opens_in_block}")
        ctx.prove(not hasattr(p, "_cache") and not hasattr(p._proc, "_cache"), "cache-gone-after-exit")
        for i in range(exit_at, K):
            do(i, False)


ATTRS = ["ppid", "num_threads", "uids", "cpu_times", "name"]


@harness("C16.as_dict", quick=[dict(kind=kd) for kd in ("subset", "invalid", "noncollection", "inside_block", "denied", "vanished")])
def as_dict(ctx, kind):
    """kind "denied": one of the records (symbolic which: stat, status, or none) cannot be opened (EACCES or EPERM): exactly the
    requested keys, ad_value in the slots whose source is the unreadable record, the real values elsewhere, never an exception;
    kind "vanished": the process is gone: NoSuchProcess whenever something has to be read (attrs=['pid'] alone reads nothing)"""
    k = simk.Kernel(ctx)
    simk.system_files(k)
    simk.full_process(k, P)
    V = Versions(ctx, k)
    V.install()
    src = None
    if kind == "denied":      # unreadable from the start (hidepid, another user's process under an LSM): the object is built without it
        src = ctx.choice("unreadable", ["stat", "status", None])
        if src:
            k.files[f"/proc/{P}/{src}"] = simk.oserr(ctx.choice("errno", [errno.EACCES, errno.EPERM]), f"/proc/{P}/{src}")
    with k.installed():
        p = psutil.Process(P)
        V.holder["proc"] = p._proc
        n0 = k.naccess_total
        if kind == "invalid":
            bad = ctx.choice("bad", ["nme", "send_signal", "kill", "wait", "_proc", "", "children", "as_dict", "oneshot"])
            want = [a for a in ATTRS if ctx.flag(f"a_{a}")] + [bad]
            try:
                p.as_dict(attrs=want)
                exc = None
            except ValueError as e:
                exc = e
            ctx.prove(exc is not None and k.naccess_total == n0, "as_dict-invalid-name-ValueError", detail=f"{want}")
            return
        if kind == "noncollection":
            arg = ctx.choice("arg", ["name", 5, {"name": 1}, 1.5])
            try:
                p.as_dict(attrs=arg)
                exc = None
            except TypeError as e:
                exc = e
            ctx.prove(exc is not None and k.naccess_total == n0, "as_dict-non-collection-TypeError", detail=f"{arg!r}")
            return
        want = [a for a in ATTRS if ctx.flag(f"a_{a}")]
        if not want:
            ctx.assume(False)
        container = ctx.choice("container", [list, tuple, set, frozenset])
        if kind == "denied":
            if ctx.flag("pid_wanted_too"):
                want = want + ["pid"]
            AD = object()
            d = ctx.guard("as_dict-ad_value", p.as_dict, attrs=container(want), ad_value=AD)
            ctx.prove(set(d) == set(want), "as_dict-keys", detail=f"{sorted(d)} vs {want}")
            for a in want:
                if a == "pid":
                    ctx.prove(d[a] == P, "as_dict-ad_value", detail="pid")
                elif METHODS[a] == src:
                    ctx.prove(d[a] is AD, "as_dict-ad_value", detail=f"{a} with /proc/{P}/{src} unreadable -> {d[a]!r}")
                else:
                    ctx.prove(d[a] is not AD, "as_dict-ad_value", detail=f"{a} is readable (unreadable: {src}) but got ad_value")
                    if d[a] is not AD:
                        V.check_value(ctx, a, d[a], 0, "value-from-first-read-version")
            ctx.prove(not hasattr(p, "_cache") and not hasattr(p._proc, "_cache"), "cache-gone-after-exit")
            return
        if kind == "vanished":
            only_pid = ctx.flag("only_pid_wanted")
            for n in [n for n in list(k.files) if n.startswith(f"/proc/{P}/")]:
                del k.files[n]
            k.dirs.pop(f"/proc/{P}", None), k.procs.discard(P)
            try:
                d, exc = p.as_dict(attrs=container(["pid"] if only_pid else want), ad_value="AD"), None
            except psutil.NoSuchProcess as e:
                d, exc = None, e
            if only_pid:
                ctx.prove(d == {"pid": P}, "as_dict-ad_value", detail=f"attrs=['pid'] of a vanished process -> {d!r} {exc!r}")
            else:
                ctx.prove(exc is not None and exc.pid == P, "as_dict-NoSuchProcess-propagates", detail=f"{want} of a vanished process -> {d!r}")
            ctx.prove(not hasattr(p, "_cache") and not hasattr(p._proc, "_cache"), "cache-gone-after-exit")
            return
        if kind == "inside_block":
            with p.oneshot():
                V.v += 0
                d = ctx.guard("as_dict-keys", p.as_dict, attrs=container(want))
                still = hasattr(p, "_cache")
            ctx.prove(still, "as_dict-inside-block-keeps-block")
        else:
            d = ctx.guard("as_dict-keys", p.as_dict, attrs=container(want))
        ctx.prove(set(d) == set(want), "as_dict-keys", detail=f"{sorted(d)} vs {want}")
        ctx.prove(all(len(v) <= 1 for v in V.own_reads.values()), "each-source-read-at-most-once-per-block", detail=f"{V.own_reads}")
        for a in want:
            V.check_value(ctx, a, d[a], 0, "value-from-first-read-version")
        ctx.prove(not hasattr(p, "_cache") and not hasattr(p._proc, "_cache"), "cache-gone-after-exit")


MUTABLE = ["cmdline", "environ", "cpu_affinity", "threads", "open_files", "memory_maps", "net_connections", "gids", "as_dict:cmdline", "as_dict:environ"]


@harness("C16.results_belong_to_the_caller")
def results_belong_to_the_caller(ctx):
    """inside a block a caller may do what it likes with a result (sort it, pop from it, clear it): the next call of any method --
    the same one, name(), exe(), as_dict() -- answers as if nothing had been done to it"""
    import copy

    k = simk.Kernel(ctx)
    simk.system_files(k)
    simk.full_process(k, P, comm="averyveryverylo")           # a 15-byte name: name() completes it from cmdline()[0]
    k.files[f"/proc/{P}/cmdline"] = "/opt/averyveryverylongname\x00-x\x00"
    what = ctx.choice("result_of", MUTABLE)
    inside = ctx.flag("inside_oneshot_block")
    import contextlib

    def ask():
        if what.startswith("as_dict:"):
            return p.as_dict(attrs=[what[8:]])[what[8:]]
        return getattr(p, what)()

    with k.installed(), contextlib.ExitStack() as stack:
        p = psutil.Process(P)
        if inside:
            stack.enter_context(p.oneshot())
        first = ctx.guard("results-belong-to-the-caller", ask)
        keep = copy.deepcopy(first)
        if isinstance(first, list):
            del first[:]
            first.append("junk")
        elif isinstance(first, dict):
            first.clear()
            first["junk"] = 1
        again = ctx.guard("results-belong-to-the-caller", ask)
        plain = ctx.guard("results-belong-to-the-caller", getattr(p, what.split(":")[-1]))
        nm = p.name()
    ctx.prove(again == keep and plain == keep, "results-belong-to-the-caller", detail=f"{what} (inside a block: {inside}): first {keep!r}, after the caller emptied it: {again!r} / {plain!r}")
    ctx.prove(nm == "averyveryverylongname", "results-belong-to-the-caller", detail=f"name() afterwards: {nm!r}")


@harness("C16.threads", quick=[dict(P=1, b="cpu_times"), dict(P=1, b="num_threads"), dict(P=2, b="cpu_times", small=True), dict(P=2, b="num_threads", small=True, b_block=True)],
         thorough=[dict(P=2, b=m) for m in ("cpu_times", "num_threads", "ppid", "memory_full_info")] + [dict(P=3, b=m, small=True) for m in ("cpu_times", "num_threads")]
         + [dict(P=2, b=m, small=True, b_block=True) for m in ("cpu_times", "num_threads")], timeout_ms=5000)
def threads(ctx, P, b, small=False, b_block=False):
    """b_block: thread B uses a oneshot() block of its own (two calls of the same method inside it): within B's block the source is
    read at most once by B, whatever A's block does meanwhile"""
    """a thread using oneshot() interleaved (source-line granularity, at most P pre-emptions) with a thread calling a plain
    method on the same object: no spurious error, every value is the record's value"""
    from psv import sched

    k = simk.Kernel(ctx)
    simk.system_files(k)
    simk.full_process(k, P_ := 77)
    k.files["/proc/stat"] = "cpu  1 2 3 4 5 6 7 8 9 10\ncpu0 1 2 3 4 5 6 7 8 9 10\nbtime 1000\n"
    V = Versions(ctx, k)
    V.install()
    # with two or more pre-emptions the yield points are the lines of psutil/__init__.py and _common.py (oneshot(), the memoize wrapper,
    # cache activation): the parsing code of _pslinux.py then runs atomically; with one pre-emption every psutil line is a yield point
    S = sched.Scheduler(ctx, budget=P, files={simk.REPO + "/psutil/__init__.py", simk.REPO + "/psutil/_common.py"}) if P >= 2 and small else sched.Scheduler(ctx, budget=P)
    with k.installed(extra=[(psutil, "threading", sched.ThreadingProxy(S))]):
        p = psutil.Process(P_)
        V.holder["proc"] = p._proc

        def A():
            with p.oneshot():
                if small:       # the shortest block: one call (so that two pre-emptions stay affordable in the quick tier)
                    r = getattr(p, b)()
                    return (r if b == "cpu_times" else None, r if b == "num_threads" else None, None)
                return (p.cpu_times(), p.num_threads(), p.uids())

        def B():
            if b_block:
                with p.oneshot():
                    n0 = sum(1 for t in V.read_by[METHODS[b]] if t == 1)
                    r = (getattr(p, b)(), getattr(p, b)())
                    breads.append(sum(1 for t in V.read_by[METHODS[b]] if t == 1) - n0)
                return r
            return (getattr(p, b)(),) if small else (getattr(p, b)(), getattr(p, b)())

        breads = []
        V.who = lambda: S.current

        res = S.run([A, B])
    for i in (0, 1):
        kind, val = res[i]
        ctx.prove(kind == "ok", "threads-no-spurious-error", detail=f"thread {'AB'[i]}: {val!r} after pre-emptions at {S.trace}")
    if res[0][0] == "ok":
        ct, nt, u = res[0][1]
        for nm_, v_ in (("cpu_times", ct), ("num_threads", nt), ("uids", u)):
            if v_ is not None:
                V.check_value(ctx, nm_, v_, 0, "threads-values-valid")
    if res[1][0] == "ok":
        for r in res[1][1]:
            V.check_value(ctx, b, r, 0, "threads-values-valid")
    if b_block and breads:
        ctx.prove(breads[0] <= 1, "each-source-read-at-most-once-per-block", detail=f"thread B read its source {breads[0]} times inside its own block; pre-emptions {S.trace}")
    ctx.prove(not hasattr(p, "_cache") and not hasattr(p._proc, "_cache"), "cache-gone-after-exit")


@harness("C16.zombie_mid_block")
def zombie_mid_block(ctx):
    """a process that exits (and stays a zombie) in the middle of a oneshot() block / while as_dict() is collecting: the methods whose
    source is NOT one of the block's cached records (cmdline, exe, cwd ...) answer for the process as it is now -- ZombieProcess, or
    ad_value in as_dict() -- while the cached records may keep the values they had when first read"""
    k = simk.Kernel(ctx)
    simk.system_files(k)
    simk.full_process(k, P)
    warm = ctx.choice("asked_before", ["status", "name", "ppid", "cpu_times", None])
    how = ctx.choice("how", ["cmdline()", "as_dict"])
    with k.installed():
        p = psutil.Process(P)
        with p.oneshot():
            if warm:
                getattr(p, warm)()
            simk.full_process(k, P, zombie=True)          # exits, not reaped: state Z, empty cmdline, exe/cwd links gone
            if how == "cmdline()":
                try:
                    r, exc = p.cmdline(), None
                except psutil.ZombieProcess as e:
                    r, exc = None, e
                ctx.prove(exc is not None and exc.pid == P, "zombie-mid-block", detail=f"asked before: {warm}; cmdline() -> {r!r}")
            else:
                d = ctx.guard("zombie-mid-block", p.as_dict, attrs=["cmdline", "status", "name"], ad_value="AD")
                ctx.prove(d["cmdline"] == "AD" and d["name"] == "cat" and d["status"] in ("zombie", "sleeping"), "zombie-mid-block", detail=f"asked before: {warm}; as_dict -> {d}")
        # after the block everything is fresh
        ctx.prove(p.status() == "zombie", "fresh-read-outside-block", detail="status() after the block")
