"""Replay of C-level counterexamples against the COMPILED extension.

`built()` copies the repository's current working tree (sources only) to a scratch directory outside /repo and /verif, builds the
extension there with the project's own setup.py, and removes the directory at interpreter exit.  `run(script, ...)` executes a
Python script in a fresh interpreter with that copy first on sys.path (optionally under an LD_PRELOAD shim compiled from C text).
Used only when a cir obligation has failed: the model's bytes are fed to the real code through the real libc.
"""
import atexit
import os
import shutil
import subprocess
import sys
import tempfile

REPO = os.environ.get("PSV_REPO", "/repo")
_BUILT = {}


def built():
    if "dir" in _BUILT:
        return _BUILT["dir"]
    d = tempfile.mkdtemp(prefix="psv-build-", dir=os.environ.get("TMPDIR", "/tmp"))
    atexit.register(shutil.rmtree, d, True)
    for name in ("setup.py", "README.rst", "pyproject.toml", "MANIFEST.in", "LICENSE"):
        if os.path.exists(os.path.join(REPO, name)):
            shutil.copy(os.path.join(REPO, name), d)
    shutil.copytree(os.path.join(REPO, "psutil"), os.path.join(d, "psutil"), ignore=shutil.ignore_patterns("*.so", "__pycache__", "tests"))
    if os.path.isdir(os.path.join(REPO, "scripts")):
        shutil.copytree(os.path.join(REPO, "scripts"), os.path.join(d, "scripts"), ignore=shutil.ignore_patterns("__pycache__"))
    r = subprocess.run([sys.executable, "setup.py", "build_ext", "-i"], cwd=d, capture_output=True, text=True)
    if r.returncode != 0:
        raise RuntimeError("building the extension from the current tree failed: " + r.stderr[-600:])
    _BUILT["dir"] = d
    return d


def shim(c_text):
    """compile an LD_PRELOAD library from C text; returns its path (inside the scratch build directory)"""
    d = built()
    src, lib = os.path.join(d, "shim.c"), os.path.join(d, "shim.so")
    with open(src, "w") as f:
        f.write(c_text)
    r = subprocess.run(["cc", "-shared", "-fPIC", "-o", lib, src], capture_output=True, text=True)
    if r.returncode != 0:
        raise RuntimeError("compiling the shim failed: " + r.stderr[-600:])
    return lib


def run(script, preload=None, timeout=120):
    """run `script` (text) in a fresh interpreter importing psutil from the scratch build; returns (returncode, stdout, stderr)"""
    d = built()
    env = dict(os.environ, PYTHONDONTWRITEBYTECODE="1")
    env.pop("PYTHONPATH", None)
    if preload:
        env["LD_PRELOAD"] = preload
    code = f"import sys; sys.path.insert(0, {d!r})\n" + script
    r = subprocess.run([sys.executable, "-c", code], cwd=d, capture_output=True, text=True, timeout=timeout, env=env)
    return r.returncode, r.stdout, r.stderr
