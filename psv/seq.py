"""SymSeq: byte / character sequences of concrete length with symbolic contents (design-phase prototype v2).

Every operation whose result *shape* depends on contents forks on per-position tests, so each path
has concrete indices and lengths; constraints on characters are linear integer constraints.
Pieces that are fully concrete are returned as real bytes/str.
"""
import z3

from . import sym
from .sym import HarnessError, SymBool, SymInt

BYTES_WS = (9, 10, 11, 12, 13, 32)
STR_WS = (9, 10, 11, 12, 13, 28, 29, 30, 31, 32, 133, 160, 5760, 8232, 8233, 8239, 8287, 12288) + tuple(
    range(8192, 8203)
)


def _c(x):
    return z3.IntVal(x) if isinstance(x, int) else x


def _eq(a, b):
    if isinstance(a, int) and isinstance(b, int):
        return z3.BoolVal(a == b)
    return _c(a) == _c(b)


class SymSeq(sym.Sym):
    __slots__ = ("items", "kind")

    def __init__(self, items, kind):
        self.items = list(items)
        self.kind = kind  # 'bytes' | 'str'

    # -- construction / normalisation ----------------------------------------------
    @staticmethod
    def of(x, kind=None):
        if isinstance(x, SymSeq):
            return x
        if isinstance(x, (bytes, bytearray)):
            return SymSeq(list(x), "bytes")
        if isinstance(x, str):
            return SymSeq([ord(ch) for ch in x], "str")
        raise TypeError(f"cannot make SymSeq of {type(x)!r}")

    def _same(self, o):
        o = SymSeq.of(o)
        if o.kind != self.kind:
            raise TypeError(f"mixing {self.kind} and {o.kind}")
        return o

    def norm(self):
        if all(isinstance(c, int) for c in self.items):
            return bytes(self.items) if self.kind == "bytes" else "".join(map(chr, self.items))
        return self

    def _mk(self, items):
        return SymSeq(items, self.kind).norm()

    # -- basic protocol ---------------------------------------------------------------
    def __len__(self):
        return len(self.items)

    def __symlen__(self):
        return len(self.items)

    def __bool__(self):
        return bool(self.items)

    def __repr__(self):
        body = "".join(chr(c) if isinstance(c, int) and 32 <= c < 127 else "?" if not isinstance(c, int) else "." for c in self.items)
        return f"<Sym{self.kind} {body!r}>"

    def __iter__(self):
        for c in self.items:
            if self.kind == "bytes":
                yield c if isinstance(c, int) else SymInt(c)
            else:
                yield self._mk([c])

    def __getitem__(self, k):
        if isinstance(k, slice):
            return self._mk(self.items[k])
        if isinstance(k, SymInt):
            k = k.__index__()
        c = self.items[k]
        if self.kind == "bytes":
            return c if isinstance(c, int) else SymInt(c)
        return self._mk([c])

    def __add__(self, o):
        return self._mk(self.items + self._same(o).items)

    def __radd__(self, o):
        return self._mk(self._same(o).items + self.items)

    def eq_term(self, o):
        try:
            o = self._same(o)
        except TypeError:
            return z3.BoolVal(False)
        if len(o.items) != len(self.items):
            return z3.BoolVal(False)
        if not self.items:
            return z3.BoolVal(True)
        return z3.And(*[_eq(a, b) for a, b in zip(self.items, o.items)])

    def __eq__(self, o):
        if not isinstance(o, (bytes, str, SymSeq)):
            return False
        return bool(SymBool(self.eq_term(o)))

    def __ne__(self, o):
        return not self.__eq__(o)

    def __hash__(self):
        # dict/set key: every symbolic sequence hashes alike, so dicts resolve them by __eq__ (which
        # forks).  Limitation (harnesses must respect it): a symbolic key is never identified with an
        # equal *concrete* key of the same dict, whose real hash differs.
        return 0x5EED

    def concretize(self):
        vals = [c if isinstance(c, int) else sym.CUR.concretize(c) for c in self.items]
        return bytes(vals) if self.kind == "bytes" else "".join(map(chr, vals))

    def __lt__(self, o):  # needed by sorted(); lexicographic with forks
        o = self._same(o)
        for a, b in zip(self.items, o.items):
            if bool(SymBool(_c(a) < _c(b))):
                return True
            if bool(SymBool(_c(a) > _c(b))):
                return False
        return len(self.items) < len(o.items)

    # -- searching -----------------------------------------------------------------------
    def _match_at(self, i, sub):
        if i < 0 or i + len(sub) > len(self.items):
            return z3.BoolVal(False)
        if not sub:
            return z3.BoolVal(True)
        return z3.simplify(z3.And(*[_eq(self.items[i + j], sub[j]) for j in range(len(sub))]))

    def _range(self, start, end):
        n = len(self.items)
        start = 0 if start is None else (start + n if start < 0 else start)
        end = n if end is None else (end + n if end < 0 else end)
        return max(0, start), min(n, end)

    def find(self, sub, start=None, end=None):
        sub = self._same(sub).items
        a, b = self._range(start, end)
        for i in range(a, b - len(sub) + 1):
            if bool(SymBool(self._match_at(i, sub))):
                return i
        return -1

    def rfind(self, sub, start=None, end=None):
        sub = self._same(sub).items
        a, b = self._range(start, end)
        for i in range(b - len(sub), a - 1, -1):
            if bool(SymBool(self._match_at(i, sub))):
                return i
        return -1

    def index(self, sub, *a):
        r = self.find(sub, *a)
        if r < 0:
            raise ValueError("subsection not found")
        return r

    def count(self, sub):
        sub = self._same(sub).items
        i = n = 0
        while i <= len(self.items) - len(sub):
            if bool(SymBool(self._match_at(i, sub))):
                n += 1
                i += max(1, len(sub))
            else:
                i += 1
        return n

    def __contains__(self, sub):
        if isinstance(sub, (int, SymInt)) and self.kind == "bytes":
            return bool(SymBool(z3.Or(*[_eq(c, sub.t if isinstance(sub, SymInt) else sub) for c in self.items])))
        return self.find(sub) >= 0

    def startswith(self, prefix, start=None):
        if isinstance(prefix, tuple):
            return any(self.startswith(p, start) for p in prefix)
        a, _ = self._range(start, None)
        return bool(SymBool(self._match_at(a, self._same(prefix).items)))

    def endswith(self, suffix):
        if isinstance(suffix, tuple):
            return any(self.endswith(s) for s in suffix)
        s = self._same(suffix).items
        return bool(SymBool(self._match_at(len(self.items) - len(s), s)))

    # -- whitespace ---------------------------------------------------------------------
    def _ws_term(self, c, chars=None):
        if chars is None:
            ws = BYTES_WS if self.kind == "bytes" else STR_WS
        else:
            ws = self._same(chars).items
            if any(not isinstance(x, int) for x in ws):
                raise HarnessError("symbolic strip set")
        if isinstance(c, int):
            return z3.BoolVal(c in ws)
        return z3.Or(*[c == w for w in ws])

    def _isws(self, c, chars=None):
        return bool(SymBool(self._ws_term(c, chars)))

    def lstrip(self, chars=None):
        a = 0
        while a < len(self.items) and self._isws(self.items[a], chars):
            a += 1
        return self._mk(self.items[a:])

    def rstrip(self, chars=None):
        b = len(self.items)
        while b > 0 and self._isws(self.items[b - 1], chars):
            b -= 1
        return self._mk(self.items[:b])

    def strip(self, chars=None):
        r = self.lstrip(chars)
        return r.rstrip(chars) if isinstance(r, SymSeq) else r.strip(chars)

    # -- splitting ----------------------------------------------------------------------
    def split(self, sep=None, maxsplit=-1):
        out = []
        n = len(self.items)
        if sep is None:
            i = 0
            while True:
                while i < n and self._isws(self.items[i]):
                    i += 1
                if i >= n:
                    break
                if 0 <= maxsplit <= len(out):
                    out.append(self._mk(self.items[i:]))      # the remainder keeps its trailing whitespace, as in CPython
                    break
                j = i
                while j < n and not self._isws(self.items[j]):
                    j += 1
                out.append(self._mk(self.items[i:j]))
                i = j
            return out
        sep = self._same(sep).items
        if not sep:
            raise ValueError("empty separator")
        cur, i = [], 0
        while i < n:
            if (maxsplit < 0 or len(out) < maxsplit) and bool(SymBool(self._match_at(i, sep))):
                out.append(self._mk(cur))
                cur = []
                i += len(sep)
            else:
                cur.append(self.items[i])
                i += 1
        out.append(self._mk(cur))
        return out

    def rsplit(self, sep=None, maxsplit=-1):
        if maxsplit < 0:
            return self.split(sep)
        if sep is None:
            raise HarnessError("rsplit(None, n) on symbolic text not modelled")
        sep = self._same(sep).items
        out, cur, i = [], [], len(self.items)
        while i > 0:
            j = i - len(sep)
            if len(out) < maxsplit and j >= 0 and bool(SymBool(self._match_at(j, sep))):
                out.append(self._mk(list(reversed(cur))))
                cur = []
                i = j
            else:
                cur.append(self.items[i - 1])
                i -= 1
        out.append(self._mk(list(reversed(cur))))
        return list(reversed(out))

    def splitlines(self, keepends=False):
        out, cur = [], []
        for c in self.items:
            if bool(SymBool(_eq(c, 10))):
                out.append(self._mk(cur + ([c] if keepends else [])))
                cur = []
            else:
                cur.append(c)
        if cur:
            out.append(self._mk(cur))
        return out

    def partition(self, sep):
        i = self.find(sep)
        if i < 0:
            return (self.norm(), self._mk([]), self._mk([]))
        n = len(self._same(sep).items)
        return (self._mk(self.items[:i]), self._same(sep).norm(), self._mk(self.items[i + n :]))

    def rpartition(self, sep):
        i = self.rfind(sep)
        if i < 0:
            return (self._mk([]), self._mk([]), self.norm())
        n = len(self._same(sep).items)
        return (self._mk(self.items[:i]), self._same(sep).norm(), self._mk(self.items[i + n :]))

    def replace(self, old, new, count=-1):
        old, new = self._same(old).items, self._same(new).items
        out, i, done = [], 0, 0
        while i < len(self.items):
            if (count < 0 or done < count) and old and bool(SymBool(self._match_at(i, old))):
                out.extend(new)
                i += len(old)
                done += 1
            else:
                out.append(self.items[i])
                i += 1
        return self._mk(out)

    def join(self, parts):
        out = []
        for k, p in enumerate(parts):
            if k:
                out.extend(self.items)
            out.extend(self._same(p).items)
        return self._mk(out)

    # -- character classes ----------------------------------------------------------------
    def isdigit(self):
        if not self.items:
            return False
        return bool(SymBool(z3.And(*[z3.And(_c(c) >= 48, _c(c) <= 57) for c in self.items])))

    def lower(self):
        return self._mk([c + 32 if isinstance(c, int) and 65 <= c <= 90 else c if isinstance(c, int) else z3.If(z3.And(c >= 65, c <= 90), c + 32, c) for c in self.items])

    def upper(self):
        return self._mk([c - 32 if isinstance(c, int) and 97 <= c <= 122 else c if isinstance(c, int) else z3.If(z3.And(c >= 97, c <= 122), c - 32, c) for c in self.items])

    # -- codecs (ASCII identity model) ---------------------------------------------------
    def _ascii_only(self):
        for c in self.items:
            if isinstance(c, int):
                if c >= 128:
                    raise HarnessError("non-ASCII concrete byte through symbolic codec model")
            else:
                sym.CUR.add(c < 128)  # stated bound: symbolic characters crossing a codec are ASCII
        if sym.CUR._check() == "unsat":
            raise sym.Abort()

    def decode(self, encoding=None, errors=None):
        if self.kind != "bytes":
            raise AttributeError("decode")
        self._ascii_only()
        return SymSeq(self.items, "str").norm()

    def encode(self, encoding=None, errors=None):
        if self.kind != "str":
            raise AttributeError("encode")
        self._ascii_only()
        return SymSeq(self.items, "bytes").norm()

    def __symint__(self, base=10):
        # int() of symbolic digit text (e.g. a regex group inside a symbolic region): value as a term
        t = self.strip()
        if not isinstance(t, SymSeq):
            return int(t, base)
        if not t.items:
            raise ValueError("invalid literal for int()")
        if base != 10 or not t.isdigit():
            raise HarnessError("int() of symbolic non-decimal text not modelled")
        v = z3.IntVal(0)
        for c in t.items:
            v = v * 10 + (_c(c) - 48)
        return SymInt(z3.simplify(v))

    def __fspath__(self):
        raise HarnessError("symbolic path reached a real os function")


def fresh(ctx, name, n, kind="bytes", lo=1, hi=None, exclude=()):
    """n symbolic characters (default: any byte but NUL / any code point 1..0x10FFFF for str)."""
    if hi is None:
        hi = 255 if kind == "bytes" else 0x10FFFF
    items = []
    for i in range(n):
        c = ctx.int(f"{name}_{i}", lo, hi)
        if ctx.symbolic:
            for x in exclude:
                ctx.ex.add(c.t != x)
            items.append(c.t)
        else:
            items.append(c)
    s = SymSeq(items, kind)
    return s.norm()
