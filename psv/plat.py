"""Platform lab: load /repo/psutil as another platform on Linux, under an alias package name, over programmable stub
native modules (C20, and the import-time variants of C19).

`sys.platform` / `os.name` are patched only while the alias package is being imported.  The stub native modules
answer every UPPERCASE attribute with a distinct integer constant and every other attribute with a programmable
function that goes through `Lab.call()`.
"""
import importlib.util
import os
import sys
import types

from .sym import HarnessError

REPO = os.environ.get("PSV_REPO", "/repo")
sys.dont_write_bytecode = True


class Lab:
    """Behaviour of the native layer of one loaded platform: canned answers, one programmable failure."""

    def __init__(self):
        self.answers = {}          # fn name -> value or callable(*args)
        self.fail_errno = None     # errno raised by the failing native call
        self.fail_winerror = None
        self.fail_at = None        # index (0-based, over all native calls since arm()) of the call that fails; None = never
        self.ncalls = 0
        self.calls = []
        self.call_args = []
        self.windows = False

    def arm(self, fail_at=None, fail_errno=None, winerror=None):
        self.ncalls, self.calls, self.call_args = 0, [], []
        self.fail_at, self.fail_errno, self.fail_winerror = fail_at, fail_errno, winerror

    def call(self, mod, name, args, kw):
        i = self.ncalls
        self.ncalls += 1
        self.calls.append(name)
        self.call_args.append(args)
        if self.fail_at is not None and i == self.fail_at:
            e = OSError(self.fail_errno, os.strerror(self.fail_errno))
            if self.windows:
                e.winerror = self.fail_winerror       # on Windows every OSError has the attribute (None when unset)
            raise e
        if name in self.answers:
            a = self.answers[name]
            return a(*args, **kw) if callable(a) else a
        raise HarnessError(f"unstubbed native call {mod}.{name}{args!r} (call #{i})")


class Native(types.ModuleType):
    def __init__(self, name, lab):
        super().__init__(name)
        self.__dict__["_lab"] = lab
        self.__dict__["_n"] = 1000
        self.version = 700

    def __getattr__(self, k):
        if k.startswith("__"):
            raise AttributeError(k)
        if k[:1].isupper():
            self.__dict__["_n"] += 1
            v = self.__dict__["_n"]
            setattr(self, k, v)
            return v
        lab, modname = self.__dict__["_lab"], self.__name__.rsplit(".", 1)[-1]

        def stub(*a, **kw):
            return lab.call(modname, k, a, kw)

        stub.__name__ = k
        setattr(self, k, stub)
        return stub


_LOADED = {}


def load(alias, platform, natives, osname="posix", pre=None, patch_os_exists=None, patch_getpid=None):
    """Import /repo/psutil under `alias` as if sys.platform == platform. Returns (package, {native name: module}, lab)."""
    if alias in _LOADED:
        return _LOADED[alias]
    lab = Lab()
    old = (sys.platform, os.name)
    saved_exists = os.path.exists
    sys.platform, os.name = platform, osname
    if patch_os_exists is not None:
        os.path.exists = lambda p: True if p in patch_os_exists else saved_exists(p)
    saved_getpid = os.getpid
    if patch_getpid is not None:        # "the package is imported by process <patch_getpid>"
        os.getpid = lambda: patch_getpid
    added = []
    try:
        pkgdir = os.path.join(REPO, "psutil")
        spec = importlib.util.spec_from_file_location(alias, os.path.join(pkgdir, "__init__.py"), submodule_search_locations=[pkgdir])
        pkg = importlib.util.module_from_spec(spec)
        sys.modules[alias] = pkg
        added.append(alias)
        mods = {}
        for n in natives:
            m = Native(f"{alias}.{n}", lab)
            m.getpagesize = lambda: 4096
            m.AF_LINK = 18
            sys.modules[f"{alias}.{n}"] = m
            setattr(pkg, n, m)
            mods[n] = m
            added.append(f"{alias}.{n}")
        if pre:
            pre(mods, lab)
        spec.loader.exec_module(pkg)
    except BaseException:
        for a in added:
            sys.modules.pop(a, None)
        raise
    finally:
        sys.platform, os.name = old
        os.path.exists = saved_exists
        os.getpid = saved_getpid
    # pristine state, restored by reset() before every use: harnesses program the lab and patch module attributes of the alias copy
    # (pid_exists, pids, net_if_addrs, os ...); nothing of that may survive into the next task of the same worker process
    lab.base_answers = dict(lab.answers)
    lab.pristine = {}
    for m in [pkg] + [getattr(pkg, n, None) for n in ("_psplatform", "_common", "_psposix", "_pslinux")]:
        if isinstance(m, types.ModuleType):
            lab.pristine[m.__name__] = (m, dict(vars(m)))
    _LOADED[alias] = (pkg, mods, lab)
    return _LOADED[alias]


def reset(alias):
    """restore the alias copy loaded under `alias` and its lab to the state they had right after the import"""
    pkg, mods, lab = _LOADED[alias]
    lab.answers = dict(lab.base_answers)
    lab.arm()
    lab.windows = False
    for m, snap in lab.pristine.values():
        d = vars(m)
        for k in [k for k in d if k not in snap]:
            del d[k]
        for k, v in snap.items():
            if d.get(k, None) is not v:
                d[k] = v
