"""CrossHair second opinion on C10 (integers, tuples and dicts with concrete keys only -- the kind of code the design-phase probe
showed CrossHair 0.0.110 to be reliable on).  The real psutil._common._WrapNumbers.run is called three times for one device with
two counters; the postcondition is the statement's formula.  Run by psv.run in the thorough tier of C10."""
import os
import sys
from typing import Tuple

sys.path.insert(0, os.environ.get("PSV_REPO", "/repo"))
from psutil._common import _WrapNumbers  # noqa: E402


def three_calls(a0: int, a1: int, b0: int, b1: int, c0: int, c1: int) -> Tuple[int, int, int, int, int, int]:
    """
    pre: a0 >= 0 and a1 >= 0 and b0 >= 0 and b1 >= 0 and c0 >= 0 and c1 >= 0
    post: _[0] == a0 and _[1] == a1
    post: _[2] == b0 + (a0 if b0 < a0 else 0) and _[3] == b1 + (a1 if b1 < a1 else 0)
    post: _[4] == c0 + (a0 if b0 < a0 else 0) + (b0 if c0 < b0 else 0) and _[5] == c1 + (a1 if b1 < a1 else 0) + (b1 if c1 < b1 else 0)
    post: _[2] >= _[0] and _[4] >= _[2] and _[3] >= _[1] and _[5] >= _[3]
    """
    w = _WrapNumbers()
    r1 = w.run({"d": (a0, a1)}, "f")["d"]
    r2 = w.run({"d": (b0, b1)}, "f")["d"]
    r3 = w.run({"d": (c0, c1)}, "f")["d"]
    return (r1[0], r1[1], r2[0], r2[1], r3[0], r3[1])


def planted_wrong(a0: int, b0: int) -> int:
    """
    The reachability twin: a deliberately wrong postcondition that CrossHair must refute (otherwise its 'confirmed' means nothing).
    pre: a0 >= 0 and b0 >= 0
    post: _ == b0
    """
    w = _WrapNumbers()
    w.run({"d": (a0,)}, "f")
    return w.run({"d": (b0,)}, "f")["d"][0]
