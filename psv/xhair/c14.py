"""CrossHair second opinion on C14: the real psutil._pslinux.file_flags_to_mode for every flag word whose access mode is 0, 1 or 2."""
import os
import sys

sys.path.insert(0, os.environ.get("PSV_REPO", "/repo"))
from psutil._pslinux import file_flags_to_mode  # noqa: E402


def _want(acc: int, append: bool) -> str:
    if acc == 0:
        return "r"
    if acc == 1:
        return "a" if append else "w"
    return "a+" if append else "r+"


def mode_table(acc: int, append: bool, other: int) -> str:
    """
    The flag word is assembled from its parts: access mode (bits 0-1), O_APPEND (bit 10), and any other bits.
    pre: 0 <= acc <= 2 and 0 <= other < 8
    post: _ == _want(acc, append)
    """
    flags = acc + (1024 if append else 0) + 64 * (other % 4) + 2048 * (other // 4)
    return file_flags_to_mode(flags)


def planted_wrong(acc: int, append: bool) -> str:
    """
    Reachability twin: must be refuted.
    pre: 0 <= acc <= 2
    post: _ != "a+"
    """
    return file_flags_to_mode(acc + (1024 if append else 0))
