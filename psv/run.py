"""Runner: tiers, parallel exploration with work splitting, concrete re-validation, counterexample replay,
known-finding regions, evidence files, exit codes.

    python -m psv.run C07 quick|thorough
    python -m psv.run C07 --replay replays/C07/<file>.json

Exit 0: every obligation on every explored path was unsat (or matched a listed known finding);
exit 1 + "VIOLATION property=<id> replay=<path>": a counterexample reproduced on the real code;
exit 2 + "HARNESS-ERROR ..."/"INCONCLUSIVE ...": the machinery cannot vouch for its own answer.
"""
import fractions
import hashlib
import importlib
import json
import multiprocessing
import os
import sys
import time
import traceback

ROOT = os.path.dirname(os.path.dirname(os.path.abspath(__file__)))
REPO = os.environ.get("PSV_REPO", "/repo")

HARNESSES = {}


class H:
    def __init__(self, name, fn, quick, thorough, timeout_ms, cap, validate):
        self.name, self.fn, self.quick, self.thorough = name, fn, quick, thorough
        self.timeout_ms, self.cap, self.validate = timeout_ms, cap, validate


def harness(name, quick=({},), thorough=None, timeout_ms=30000, cap=64, validate=True):
    """Register fn(ctx, **cfg) under `name` ("Cxx.something"); quick/thorough are lists of cfg dicts."""

    def deco(fn):
        HARNESSES[name] = H(name, fn, list(quick), list(thorough if thorough is not None else quick), timeout_ms, cap, validate)
        return fn

    return deco


def load(prop):
    mod = importlib.import_module(f"psv.harness.{prop}")
    return mod, {n: h for n, h in HARNESSES.items() if n.startswith(prop + ".")}


def known_findings():
    p = os.path.join(ROOT, "known_findings.json")
    if not os.path.exists(p):
        return []
    return json.load(open(p))["findings"]


def jsonable(x):
    if isinstance(x, fractions.Fraction):
        return {"frac": [x.numerator, x.denominator]} if x.denominator != 1 else x.numerator
    if isinstance(x, bytes):
        return {"bytes": x.hex()}
    if isinstance(x, dict):
        return {str(k): jsonable(v) for k, v in x.items()}
    if isinstance(x, (list, tuple, set, frozenset)):
        return [jsonable(v) for v in x]
    if isinstance(x, (int, float, str, bool)) or x is None:
        return x
    return repr(x)


def unjson(x):
    if isinstance(x, dict):
        if set(x) == {"frac"}:
            return fractions.Fraction(*x["frac"])
        if set(x) == {"bytes"}:
            return bytes.fromhex(x["bytes"])
        return {k: unjson(v) for k, v in x.items()}
    if isinstance(x, list):
        return [unjson(v) for v in x]
    return x


class FnTracer:
    """Records which functions of the repository execute (the measured functions_encoded list)."""

    def __init__(self):
        self.seen = {}

    def _prof(self, frame, event, arg):
        if event == "call":
            co = frame.f_code
            fn = co.co_filename
            if fn.startswith(REPO + "/psutil") and "/tests/" not in fn:
                self.seen[(fn[len(REPO) + 1:], co.co_qualname if hasattr(co, "co_qualname") else co.co_name, co.co_firstlineno)] = True

    def __enter__(self):
        self._old = sys.getprofile()
        sys.setprofile(self._prof)
        return self

    def __exit__(self, *a):
        sys.setprofile(self._old)
        return False


def concrete_run(h, cfg, assignment):
    """Re-run the harness with ordinary Python values (no proxies, no shadows). Returns (ctx, error)."""
    from . import sym

    c = sym.ConcreteCtx(assignment)
    c.cfg_values = dict(cfg)
    err = None
    try:
        h.fn(c, **cfg)
    except sym.Stop:
        pass
    except (sym.Abort, sym.BoundExceeded):
        err = "aborted"
    except sym.HarnessError as e:
        err = f"HarnessError: {e}"
    except Exception as e:  # noqa: BLE001
        err = f"{type(e).__name__}: {e}\n" + traceback.format_exc(limit=6)
        where = sym.raised_in_code_under_test(e)
        if where is not None:
            c.failed.append(sym.UNEXPECTED)
            c.details[sym.UNEXPECTED] = f"{type(e).__name__}: {e} at {where}"
    return c, err


def obs_equal(a, b):
    """Symbolic result evaluated under the path model vs. concrete result (floats: relative tolerance; rounded
    values may differ by one step on an exact tie)."""
    if isinstance(a, (list, tuple)) and isinstance(b, (list, tuple)):
        return len(a) == len(b) and all(obs_equal(x, y) for x, y in zip(a, b))
    if isinstance(a, dict) and isinstance(b, dict):
        return set(a) == set(b) and all(obs_equal(a[k], b[k]) for k in a)
    num = (int, float, fractions.Fraction)
    if isinstance(a, num) and isinstance(b, num) and not isinstance(a, bool) and not isinstance(b, bool):
        fa, fb = float(a), float(b)
        return fa == fb or abs(fa - fb) <= 1e-9 * max(abs(fa), abs(fb)) + 1e-9 or (
            (isinstance(a, float) or isinstance(b, float)) and abs(fa - fb) <= 0.1 + 1e-9 and abs(round(fb * 100) - fb * 100) < 1e-6)
    return a == b


def run_task(args):
    """Worker: explore a slice of one (harness, cfg); replay findings; re-validate path models."""
    prop, hname, cfg, prefixes, budget_paths, budget_s, validate_cap = args[:7]
    second = args[7] if len(args) > 7 else 0
    reverse = args[8] if len(args) > 8 else False
    from . import sym

    out = dict(harness=hname, cfg=cfg, reverse=reverse, stats={}, left=[], confirmed=[], nonrepro=[], errors=[], witness=[], samples=[],
               functions=[], validated=0, mismatches=[], npaths_nontrivial=0, unknowns=[], second=0)
    try:
        _, hs = load(prop)
        h = hs[hname]
        known = [k for k in known_findings() if k.get("status") == "known" and k.get("harness") == hname]
        ex = sym.Explorer(timeout_ms=h.timeout_ms, concretize_cap=h.cap, known=known)
        ex.second_budget = second
        ex.reverse = reverse
        tracer = FnTracer() if not prefixes or prefixes == [[]] else None
        try:
            out["left"] = ex.run(_with_cfg(h.fn), cfg, prefixes, budget_paths, budget_s, tracer)
        except sym.HarnessError as e:
            out["errors"].append(f"HarnessError in {hname} {cfg}: {e}")
        except Exception as e:  # noqa: BLE001
            out["errors"].append(f"{type(e).__name__} escaped {hname} {cfg}: {e}\n{traceback.format_exc(limit=12)}")
        out["stats"] = ex.stats.as_dict()
        out["second"] = ex.second_checked
        for d in ex.second_disagreements:
            out["errors"].append("second-solver disagreement: " + d)
        out["unknowns"] = [f"{u} cfg={cfg}" for u in ex.unknowns[:5]]
        out["witness"] = sorted(ex.witness)
        if tracer is not None:
            out["functions"] = sorted(tracer.seen)
        # findings -> concrete replay on the real code
        seen = set()
        failed_by_assignment = {}
        for f in ex.findings:
            key = (f.label, f.known)
            c, err = concrete_run(h, cfg, f.assignment)
            rec = dict(harness=hname, cfg=cfg, label=f.label, assignment=f.assignment, detail=str(f.detail)[:400], known=f.known)
            if f.label in c.failed:
                rec["concrete_detail"] = str(c.details.get(f.label, ""))[:400]
                if f.known is None:
                    for k in known:
                        if not k.get("region") and sym.label_matches(f.label, k["label"]) and all(cfg.get(a) == b for a, b in (k.get("cfg") or {}).items()):
                            rec["known"] = k["id"]
                if key not in seen or rec["known"] != f.known:
                    seen.add(key)
                    out["confirmed"].append(rec)
            else:
                rec["error"] = err
                out["nonrepro"].append(rec)
        # concrete re-validation of path models
        sym_failed = {}
        for f in ex.findings:
            sym_failed.setdefault(f.label, 0)
        if h.validate and not reverse:
            for i, (assignment, observed) in enumerate(ex.path_models):
                if i >= validate_cap:
                    break
                c, err = concrete_run(h, cfg, assignment)
                if err == "aborted":
                    continue
                if err:
                    out["mismatches"].append(dict(kind="concrete-run-error", assignment=assignment, error=err))
                    continue
                bad = [l for l in c.failed if l not in sym_failed]
                if bad:
                    out["mismatches"].append(dict(kind="concrete-oracle-fails-where-symbolic-proved", labels=bad, assignment=assignment))
                    continue
                cobs = dict((l, v) for l, v in c.observed)
                for l, v in observed:
                    if l in cobs and not obs_equal(v, _plain(cobs[l])):
                        out["mismatches"].append(dict(kind="observation-differs", label=l, symbolic=repr(v)[:300], concrete=repr(cobs[l])[:300], assignment=assignment))
                        break
                else:
                    out["validated"] += 1
        out["samples"] = [a for a, _ in ex.path_models[:2]]
        out["npaths_nontrivial"] = sum(1 for a, _ in ex.path_models if a)
    except BaseException as e:  # noqa: BLE001
        out["errors"].append(f"worker failure {type(e).__name__}: {e}\n{traceback.format_exc(limit=12)}")
    return jsonable(out)


def _plain(x):
    if isinstance(x, tuple) and hasattr(x, "_fields"):
        return tuple(_plain(y) for y in x)
    if isinstance(x, (list, tuple)):
        return type(x)(_plain(y) for y in x)
    if isinstance(x, dict):
        return {k: _plain(v) for k, v in x.items()}
    return x


def _with_cfg(fn):
    def wrapped(ctx, **cfg):
        ctx.cfg_values = dict(cfg)
        return fn(ctx, **cfg)

    return wrapped


def main(argv):
    prop = argv[0]
    os.chdir(ROOT)
    if len(argv) >= 3 and argv[1] == "--replay":
        return replay(prop, argv[2])
    tier = argv[1] if len(argv) > 1 else os.environ.get("VERIF_TIER", "quick")
    seed = int(os.environ.get("VERIF_SEED", "0"))
    jobs = int(os.environ.get("VERIF_JOBS", "8" if tier == "quick" else "16"))
    only = os.environ.get("VERIF_ONLY")
    t0 = time.time()
    mod, hs = load(prop)
    if only:
        hs = {n: h for n, h in hs.items() if only in n}
    meta = getattr(mod, "META", {})
    deadline = t0 + float(os.environ.get("VERIF_DEADLINE_S", meta.get("deadline_s", {}).get(tier, 1500 if tier == "quick" else 7200)))
    slice_paths, slice_s = (60, 10) if tier == "quick" else (150, 30)
    validate_cap = 10**9 if tier == "thorough" else 400
    tasks = []
    do_reverse = tier == "thorough" and os.environ.get("VERIF_REVERSE", "1") != "0"
    for name, h in sorted(hs.items()):
        for cfg in (h.quick if tier == "quick" else h.thorough):
            tasks.append((prop, name, cfg, [[]], slice_paths, slice_s, validate_cap, 3 if tier == "thorough" else 0, False))
            if do_reverse and not name.endswith((".threads", ".race")) and name not in meta.get("no_reverse", ()):
                # the same exploration with the other side of every branch first: a verdict that depends on the order in which paths
                # run means state leaks from one path into the next
                tasks.append((prop, name, cfg, [[]], slice_paths, slice_s, 0, 0, True))
    agg = dict(stats={}, unknowns=[], confirmed=[], nonrepro=[], errors=[], witness={}, samples=[], functions=set(), validated=0, mismatches=[],
               tasks=0, configs=len(tasks), nontrivial=0)
    ctxmp = multiprocessing.get_context("fork")
    timed_out = False
    with ctxmp.Pool(processes=jobs, maxtasksperchild=20) as pool:
        pending = [pool.apply_async(run_task, (t,)) for t in tasks]
        while pending:
            if time.time() > deadline:
                timed_out = True
                pool.terminate()
                break
            still = []
            progressed = False
            for r in pending:
                if not r.ready():
                    still.append(r)
                    continue
                progressed = True
                o = unjson(r.get())
                agg["tasks"] += 1
                if o.get("reverse"):
                    key = (o["harness"], json.dumps(jsonable(o["cfg"]), sort_keys=True))
                    rv = agg.setdefault("rev", {}).setdefault(key, dict(paths=0, labels=set()))
                    rv["paths"] += o["stats"].get("paths", 0)
                    rv["labels"].update(r_["label"] for r_ in o["confirmed"])
                    agg["errors"].extend(o["errors"])
                    left = o["left"]
                    chunk = max(1, len(left) // (2 * jobs) + 1)
                    for i in range(0, len(left), chunk):
                        still.append(pool.apply_async(run_task, ((prop, o["harness"], o["cfg"], left[i:i + chunk], slice_paths, slice_s, 0, 0, True),)))
                    continue
                key = (o["harness"], json.dumps(jsonable(o["cfg"]), sort_keys=True))
                fw = agg.setdefault("fwd", {}).setdefault(key, dict(paths=0, labels=set()))
                fw["paths"] += o["stats"].get("paths", 0)
                fw["labels"].update(r_["label"] for r_ in o["confirmed"])
                for k, v in o["stats"].items():
                    agg["stats"][k] = agg["stats"].get(k, 0) + v
                for k in ("confirmed", "nonrepro", "errors", "mismatches", "unknowns"):
                    agg[k].extend(o[k])
                for w in o["witness"]:
                    agg["witness"].setdefault(o["harness"], set()).add(w)
                if len(agg["samples"]) < 6:
                    agg["samples"].extend(dict(harness=o["harness"], cfg=o["cfg"], path_model=s) for s in o["samples"][:1])
                agg["functions"].update(tuple(f) for f in o["functions"])
                agg["validated"] += o["validated"]
                agg["second"] = agg.get("second", 0) + o.get("second", 0)
                agg["nontrivial"] += o["npaths_nontrivial"]
                left = o["left"]
                # split leftover subtrees into new tasks
                chunk = max(1, len(left) // (2 * jobs) + 1)
                for i in range(0, len(left), chunk):
                    still.append(pool.apply_async(run_task, ((prop, o["harness"], o["cfg"], left[i:i + chunk], slice_paths, slice_s, validate_cap, 0, False),)))
            pending = still
            if not progressed:
                time.sleep(0.02)
    wall = time.time() - t0
    return report(prop, tier, seed, mod, hs, agg, wall, timed_out)


def report(prop, tier, seed, mod, hs, agg, wall, timed_out):
    meta = getattr(mod, "META", {})
    st = agg["stats"]
    kf = {k["id"]: k for k in known_findings()}
    violations, known_hits = [], {}
    for rec in agg["confirmed"]:
        if rec.get("known") and kf.get(rec["known"], {}).get("status") == "known":
            known_hits.setdefault(rec["known"], rec)
        else:
            violations.append(rec)
    # expected-but-unseen known findings are reported as a note (the defect may have been repaired)
    os.makedirs(os.path.join(ROOT, "replays", prop), exist_ok=True)
    os.makedirs(os.path.join(ROOT, "evidence"), exist_ok=True)
    lines, vio_paths, seen_v = [], [], set()
    for rec in violations:
        key = (rec["harness"], rec["label"], json.dumps(jsonable(rec["cfg"]), sort_keys=True))
        if key in seen_v:
            continue
        seen_v.add(key)
        blob = json.dumps(jsonable(rec), sort_keys=True)
        path = os.path.join(ROOT, "replays", prop, f"{rec['harness']}-{hashlib.sha1(blob.encode()).hexdigest()[:10]}.json")
        with open(path, "w") as f:
            f.write(blob)
        vio_paths.append(path)
        lines.append(f"VIOLATION property={prop} replay={path}")
        lines.append(f"  harness={rec['harness']} label={rec['label']} cfg={rec['cfg']} detail={rec.get('concrete_detail') or rec.get('detail')}")
    for kid, rec in sorted(known_hits.items()):
        lines.append(f"KNOWN-FINDING: property={prop} {kid}: {kf[kid]['what']}")
    missing_labels = []
    for name, h in hs.items():
        if not agg["witness"].get(name):
            missing_labels.append(name)
    problems = []
    if timed_out:
        problems.append("INCONCLUSIVE deadline exceeded before the exploration finished")
    if st.get("inconclusive", 0):
        problems.append(f"INCONCLUSIVE {st['inconclusive']} solver answers were unknown/time-out: {agg['unknowns'][:6]}")
    for e in agg["errors"][:5]:
        problems.append("HARNESS-ERROR " + e)
    for r in agg["nonrepro"][:5]:
        problems.append(f"HARNESS-ERROR non-reproducing model: harness={r['harness']} label={r['label']} cfg={r['cfg']} assignment={r['assignment']} err={r.get('error')}")
    for m in agg["mismatches"][:5]:
        problems.append(f"HARNESS-ERROR engine disagreement: {json.dumps(jsonable(m))[:600]}")
    for n in missing_labels:
        problems.append(f"HARNESS-ERROR no obligation of {n} was reached on any feasible path (vacuous)")
    nrev = 0
    if not timed_out:
        for key, rv in agg.get("rev", {}).items():
            fw = agg.get("fwd", {}).get(key, dict(paths=0, labels=set()))
            nrev += 1
            # (path counts may differ legitimately: optimisation queries with a 0.5 s budget decide how much is folded before forking)
            if rv["labels"] != fw["labels"] or (rv["paths"] == 0) != (fw["paths"] == 0):
                problems.append(f"HARNESS-ERROR exploration order changes the verdict (state leaking between paths?): {key[0]} {key[1]}: forward {fw['paths']} paths {sorted(fw['labels'])}, reversed {rv['paths']} paths {sorted(rv['labels'])}")
    agg["reversed_configs"] = nrev
    xh = None
    if tier == "thorough" and not os.environ.get("VERIF_ONLY"):
        xh, xp = crosshair_opinion(prop, meta)
        problems.extend(xp)
    required = set() if os.environ.get("VERIF_ONLY") else set(meta.get("labels", []))
    reached = set().union(*agg["witness"].values()) if agg["witness"] else set()
    for lab in sorted(required - reached):
        problems.append(f"HARNESS-ERROR required label never reached: {lab}")
    exhaustive = not (timed_out or st.get("truncated", 0) or st.get("inconclusive", 0) or agg["errors"])
    evidence = dict(
        property_id=prop, tier=tier, seed=seed, level="model_checking",
        coverage=dict(
            states=st.get("paths", 0), transitions=st.get("decisions", 0), traces_validated_against_impl=agg["validated"],
            samples=jsonable(agg["samples"][:6]) or [{"note": "no completed path"}],
            evaluations=st.get("obligations", 0), distinct_nontrivial=st.get("nontrivial", 0),
            rule="states = feasible symbolic paths of the real code completed; transitions = solver-decided branch decisions; "
                 "evaluations = obligations (path-condition AND NOT property) sent to z3; distinct_nontrivial = obligations whose "
                 "formula did not fold to a constant, i.e. mention at least one symbolic input; traces_validated = path models re-run "
                 "on the real code with ordinary values (no proxies, no shadows) whose oracle and observed results agreed",
            obligations=st.get("obligations", 0), discharged=st.get("discharged", 0),
            queries=st.get("queries", 0), solver_s=round(st.get("solver_s", 0.0), 3), truncated=st.get("truncated", 0),
            inconclusive=st.get("inconclusive", 0), infeasible_prefixes=st.get("infeasible", 0),
            model_cache_hits=st.get("cache_hits", 0),
            harnesses=sorted(hs), configurations=agg["configs"], tasks=agg["tasks"],
            labels_reached={k: sorted(v) for k, v in agg["witness"].items()},
            functions_encoded=[f"{a}:{c} {b}" for a, b, c in sorted(agg["functions"])],
            bounds=meta.get("bounds", {}).get(tier, meta.get("bounds", {})),
            outside_claim=meta.get("outside", []),
            extra=dict(meta.get("extra", {}), **({"second_engine": xh} if xh else {})),
            stubs=meta.get("stubs", []),
            solver="z3 " + _z3v(), exhaustive=exhaustive, second_solver_checked=agg.get("second", 0),
            known_findings_seen=sorted(known_hits), violations_found=len(vio_paths), configurations_rerun_in_reversed_path_order=agg.get("reversed_configs", 0),
            explanation="bounded symbolic execution of the real psutil code (proxy values, z3 decides every data-dependent branch "
                        "and every obligation); exhaustive=true means every feasible path within the stated bounds was completed "
                        "with no truncation and no solver unknown"),
        assumptions=meta.get("assumptions", []),
        wall_s=round(wall, 2), violations=len(vio_paths))
    # experiments against a scratch copy of the repository (PSV_REPO set to something else than /repo) keep their evidence apart
    ev_dir = os.path.join(ROOT, "evidence") if os.path.realpath(REPO) == "/repo" else os.path.join(ROOT, "replays", "scratch-evidence")
    os.makedirs(ev_dir, exist_ok=True)
    with open(os.path.join(ev_dir, f"{prop}.json"), "w") as f:
        json.dump(evidence, f, indent=1)
    print(f"[{prop} {tier}] paths={st.get('paths', 0)} decisions={st.get('decisions', 0)} obligations={st.get('obligations', 0)} "
          f"discharged={st.get('discharged', 0)} queries={st.get('queries', 0)} solver_s={st.get('solver_s', 0):.1f} "
          f"validated={agg['validated']} truncated={st.get('truncated', 0)} inconclusive={st.get('inconclusive', 0)} wall={wall:.1f}s")
    for l in lines:
        print(l)
    for p in problems:
        print(p)
    sys.stdout.flush()
    if vio_paths:
        return 1
    if problems:
        return 2
    return 0


def crosshair_opinion(prop, meta):
    """Thorough tier, C10 and C14: CrossHair 0.0.110 as an independent second engine on a harness made of integers/tuples/dicts only
    (psv/xhair/<file>.py calls the real function).  Returns (record for the evidence, list of problems).  A refutation of the main
    condition while psym proved the property is an engine disagreement (HARNESS-ERROR), never a verdict by itself; 'Not confirmed'
    is inconclusive; the planted wrong condition must be refuted, otherwise the opinion is void."""
    import subprocess

    f = meta.get("crosshair")
    if not f:
        return None, []
    target = os.path.join(ROOT, ".deps_xh")
    if not os.path.isdir(os.path.join(target, "crosshair")):
        r = subprocess.run([sys.executable, "-m", "pip", "install", "-q", "--no-index", "--find-links", "/opt/veriftools/wheels", "--target", target, "crosshair-tool"],
                           capture_output=True, text=True, env=dict(os.environ, PIP_NO_INDEX="1"))
        if r.returncode != 0:
            return dict(status="not available: " + r.stderr[-200:]), []
    t0 = time.time()
    env = dict(os.environ, PYTHONPATH=target + os.pathsep + ROOT)
    try:
        r = subprocess.run([sys.executable, "-m", "crosshair", "check", "--report_all", "--per_condition_timeout", "60", os.path.join(ROOT, "psv", "xhair", f)],
                           capture_output=True, text=True, env=env, timeout=900)
    except subprocess.TimeoutExpired:
        return dict(status="timed out"), []
    out = r.stdout + r.stderr
    src = open(os.path.join(ROOT, "psv", "xhair", f)).read().split("\n")
    planted_line = next(i + 1 for i, l in enumerate(src) if l.startswith("def planted_wrong"))
    confirmed = out.count("Confirmed over all paths")
    unconfirmed = out.count("Not confirmed") + out.count("Unable to meet precondition")
    refuted_planted = "planted_wrong(" in out and "error:" in out
    refuted_main = [l for l in out.splitlines() if "error:" in l and "planted_wrong(" not in l]
    rec = dict(engine="crosshair-tool 0.0.110", file="psv/xhair/" + f, conditions_confirmed_over_all_paths=confirmed, conditions_inconclusive=unconfirmed,
               planted_wrong_condition_refuted=refuted_planted, refutations_of_real_conditions=refuted_main[:3], seconds=round(time.time() - t0, 1))
    problems = []
    if refuted_main:
        problems.append("HARNESS-ERROR engines disagree: CrossHair refutes a condition psym proved: " + refuted_main[0][:300])
    if not refuted_planted:
        rec["status"] = "void: the planted wrong condition was not refuted"
    return rec, problems


def _z3v():
    import z3

    return z3.get_version_string()


def replay(prop, path):
    rec = unjson(json.load(open(path)))
    _, hs = load(prop)
    h = hs[rec["harness"]]
    c, err = concrete_run(h, rec["cfg"], rec["assignment"])
    print(f"replay harness={rec['harness']} cfg={rec['cfg']} label={rec['label']}")
    print(f"  inputs: {rec['assignment']}")
    if rec["label"] in c.failed:
        print(f"  REPRODUCED on the real code: {c.details.get(rec['label'], '')}")
        print(f"VIOLATION property={prop} replay={os.path.abspath(path)}")
        return 1
    print(f"  did not reproduce (failed labels: {c.failed}; error: {err})")
    return 0


if __name__ == "__main__":
    from psv import run as _run      # the registry lives in the imported module, not in __main__

    sys.exit(_run.main(sys.argv[1:]))
