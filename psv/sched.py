"""sched: interleavings of real threads as decision variables.

The thread bodies run the real psutil code in real threads, but cooperatively: exactly one thread runs at a time and control
changes hands only at *yield points* -- every `line` event (sys.settrace) inside the psutil source files.  At each yield point
"pre-empt here?" is a symbolic boolean decided by the Explorer (so the set of explored schedules is exactly the set admitted by the
budget constraint  sum(pre-emptions) <= P), and in the concrete replay it is read from the stored assignment.  Locks created by
the code under test are replaced by scheduler-aware ones: a thread that would block hands control to the lock's owner instead of
dead-locking the scheduler.

Bounds: source-line granularity (not bytecode), the stated number of threads and pre-emptions.  Races inside one source line are
outside the claim.
"""
import sys
import threading

from . import sym

REPO = sym.__dict__.get("REPO") or __import__("os").environ.get("PSV_REPO", "/repo")


class _Killed(BaseException):
    pass


class SchedLock:
    """scheduler-aware (re-entrant if asked) lock"""

    def __init__(self, sched, reentrant):
        self.s, self.re, self.owner, self.depth = sched, reentrant, None, 0

    def acquire(self, blocking=True, timeout=-1):
        me = self.s.current
        while self.owner is not None and not (self.re and self.owner == me):
            if not blocking:
                return False
            self.s.switch_to(self.owner, reason="lock")        # let the owner run until it releases
        self.owner = me
        self.depth += 1
        return True

    def release(self):
        self.depth -= 1
        if self.depth == 0:
            self.owner = None

    __enter__ = acquire

    def __exit__(self, *a):
        self.release()
        return False


class ThreadingProxy:
    """stands in for the `threading` module inside the psutil modules while a scheduler is installed"""

    def __init__(self, sched):
        self._s = sched

    def Lock(self):
        return SchedLock(self._s, False)

    def RLock(self):
        return SchedLock(self._s, True)

    def current_thread(self):
        return threading.current_thread()

    def __getattr__(self, n):
        return getattr(threading, n)


class Scheduler:
    def __init__(self, ctx, budget, files=None, max_points=4000):
        self.ctx, self.budget = ctx, budget
        self.files = files
        self.sems, self.done, self.results = {}, set(), {}
        self.current = None
        self.npoints = 0
        self.npre = 0
        self.max_points = max_points
        self.killed = False
        self.fatal = None
        self.trace = []

    # ---- yield points -------------------------------------------------------------------------------------------------
    def _tracer(self, idx):
        files = self.files

        def local(frame, event, arg):
            if event == "line":
                self.yield_point(idx)
            return local

        def glob(frame, event, arg):
            fn = frame.f_code.co_filename
            if (files is None and "/psutil/" in fn and "/tests/" not in fn) or (files is not None and fn in files):
                return local
            return None

        return glob

    def alive_others(self, idx):
        return [i for i in sorted(self.sems) if i != idx and i not in self.done]

    def yield_point(self, idx):
        if self.killed:
            raise _Killed()
        if self.current != idx:
            return
        self.npoints += 1
        if self.npoints > self.max_points:
            raise sym.BoundExceeded()
        others = self.alive_others(idx)
        if not others or self.npre >= self.budget:
            return
        sys.settrace(None)
        try:
            pre = self.ctx.flag(f"pre{self.npoints}")
        finally:
            sys.settrace(self._tracer(idx))
        if pre:
            self.npre += 1
            self.trace.append((self.npoints, idx, others[0]))
            self.switch_to(others[0], reason="preempt")

    def switch_to(self, target, reason=""):
        me = self.current
        if target == me:
            return
        if target in self.done:
            raise sym.HarnessError(f"scheduler: switch to finished thread {target} ({reason})")
        self.current = target
        self.sems[target].release()
        self.sems[me].acquire()
        if self.killed:
            raise _Killed()

    # ---- running --------------------------------------------------------------------------------------------------------
    def run(self, fns, timeout=60):
        """run the thread bodies to completion under the scheduler; returns {index: ('ok', value) | ('exc', exception)}"""
        def wrap(i, fn):
            def body():
                self.sems[i].acquire()
                try:
                    if self.killed:
                        raise _Killed()
                    sys.settrace(self._tracer(i))
                    self.results[i] = ("ok", fn())
                except _Killed:
                    pass
                except (sym.Abort, sym.BoundExceeded, sym.HarnessError, sym.Stop) as e:     # engine control flow: end everything
                    self.fatal = e
                    self.killed = True
                except BaseException as e:  # noqa: BLE001
                    self.results[i] = ("exc", e)
                finally:
                    sys.settrace(None)
                    self.done.add(i)
                    nxt = [j for j in sorted(self.sems) if j not in self.done]
                    if nxt:
                        self.current = nxt[0]
                        self.sems[nxt[0]].release()
                    else:
                        self.finished.release()
            return body

        self.finished = threading.Semaphore(0)
        ths = []
        for i, fn in enumerate(fns):
            self.sems[i] = threading.Semaphore(0)
            ths.append(threading.Thread(target=wrap(i, fn), daemon=True))
        for t in ths:
            t.start()
        self.current = 0
        self.sems[0].release()
        ok = self.finished.acquire(timeout=timeout)
        if not ok:
            self.killed = True
            for s in self.sems.values():
                s.release()
            raise sym.HarnessError("scheduler: threads did not finish (deadlock in the harness?)")
        for t in ths:
            t.join(5)
        if self.fatal is not None:
            raise self.fatal
        return self.results
