"""psym core (design-phase prototype, v2): proxy-based symbolic execution of real Python code.

The code under test runs natively; values are proxies building z3 terms; SymBool.__bool__ forks.
Exploration = DFS over decision prefixes, harness re-executed per path.
"""
import builtins
import fractions
import time

import z3

# --------------------------------------------------------------------------------------
# control-flow exceptions (BaseException so `except Exception` in code under test lets them pass)


class Abort(BaseException):
    """Current path is infeasible / pruned."""


class BoundExceeded(BaseException):
    """An environment-driven loop ran past its stated bound (path truncated, outside the claim)."""


class HarnessError(BaseException):
    """The machinery cannot vouch for its own answer."""


# --------------------------------------------------------------------------------------

CUR = None  # the active Explorer (one per process)


def _frac(x):
    f = fractions.Fraction(x)
    return z3.RealVal(f"{f.numerator}/{f.denominator}")


def lift(x):
    """Python/proxy value -> z3 term."""
    if isinstance(x, Sym):
        return x.t
    if isinstance(x, bool):
        return z3.BoolVal(x)
    if isinstance(x, int):
        return z3.IntVal(x)
    if isinstance(x, float):
        return _frac(x)
    if isinstance(x, fractions.Fraction):
        return z3.RealVal(f"{x.numerator}/{x.denominator}")
    if z3.is_expr(x):
        return x
    raise TypeError(f"cannot lift {type(x)!r}")


def is_sym(x):
    return isinstance(x, Sym)


def _num(t):
    return SymReal(t) if t.sort() == z3.RealSort() else SymInt(t)


def _coerce(a, b):
    a, b = lift(a), lift(b)
    if a.sort() != b.sort():
        if a.sort() == z3.IntSort():
            a = z3.ToReal(a)
        if b.sort() == z3.IntSort():
            b = z3.ToReal(b)
    return a, b


class Sym:
    __slots__ = ("t",)


class SymBool(Sym):
    def __init__(self, t):
        self.t = t

    def __bool__(self):
        if CUR is None:  # concrete mode: the term must fold to a constant
            v = z3.simplify(self.t)
            if z3.is_true(v):
                return True
            if z3.is_false(v):
                return False
            raise HarnessError(f"symbolic condition outside exploration: {v}")
        return CUR.branch(self.t)

    def __repr__(self):
        return f"<SymBool {z3.simplify(self.t)}>"

    def __and__(self, o):
        return SymBool(z3.And(self.t, lift(o)))

    def __or__(self, o):
        return SymBool(z3.Or(self.t, lift(o)))

    def __invert__(self):
        return SymBool(z3.Not(self.t))

    __rand__, __ror__ = __and__, __or__


class SymNum(Sym):
    __slots__ = ()

    def __init__(self, t):
        self.t = t

    # arithmetic -------------------------------------------------------------------
    def _bin(self, o, f, r=False):
        if not isinstance(o, (Sym, int, float, fractions.Fraction)) or isinstance(o, SymBool):
            return NotImplemented
        a, b = _coerce(self, o)
        if r:
            a, b = b, a
        return _num(f(a, b))

    def __add__(self, o):
        return self._bin(o, lambda a, b: a + b)

    def __radd__(self, o):
        return self._bin(o, lambda a, b: a + b, True)

    def __sub__(self, o):
        return self._bin(o, lambda a, b: a - b)

    def __rsub__(self, o):
        return self._bin(o, lambda a, b: a - b, True)

    def _mul(self, o):
        if not isinstance(o, (Sym, int, float, fractions.Fraction)) or isinstance(o, SymBool):
            return NotImplemented
        a, b = _coerce(self, o)
        if CUR is not None and a.sort() == z3.RealSort():
            # x * (n/d) with an abstracted quotient: fold into the numerator, (x*n)/d, so terms stay linear
            for u, v in ((a, b), (b, a)):
                ent = CUR._quot_by_var.get(u.get_id())
                if ent is not None and not z3.is_rational_value(z3.simplify(v)):
                    n, d = ent
                    if z3.is_rational_value(z3.simplify(n)):
                        return SymReal(CUR.quotient(z3.simplify(v * n), d))
        if CUR is not None and not (z3.is_rational_value(z3.simplify(a)) or z3.is_int_value(z3.simplify(a)) or z3.is_rational_value(z3.simplify(b)) or z3.is_int_value(z3.simplify(b))):
            for u, v in ((a, b), (b, a)):
                c = CUR.pinned(u)
                if c is not None:
                    return _num(c * v)
        return _num(a * b)

    def __mul__(self, o):
        return self._mul(o)

    def __rmul__(self, o):
        return self._mul(o)

    def __neg__(self):
        return _num(-self.t)

    def __pos__(self):
        return self

    def __abs__(self):
        return _num(z3.If(self.t >= 0, self.t, -self.t))

    def _div(self, o, r=False):
        if not isinstance(o, (Sym, int, float, fractions.Fraction)):
            return NotImplemented
        a, b = _coerce(self, o)
        if r:
            a, b = b, a
        if a.sort() == z3.IntSort():
            a, b = z3.ToReal(a), z3.ToReal(b)
        if SymBool(b == 0):
            raise ZeroDivisionError("division by zero")
        b = z3.simplify(b)
        if z3.is_rational_value(b) or CUR is None:
            return SymReal(a / b)          # division by a constant stays linear
        v = CUR.pinned(b)
        if v is not None:                  # denominator pinned by the path condition: still linear
            return SymReal(a / v)
        return SymReal(CUR.quotient(z3.simplify(a), b))

    def __truediv__(self, o):
        return self._div(o)

    def __rtruediv__(self, o):
        return self._div(o, True)

    def _idiv(self, o, r, mod):
        if not isinstance(o, (SymInt, int)) or not isinstance(self, SymInt):
            return NotImplemented
        a, b = lift(self), lift(o)
        if r:
            a, b = b, a
        if SymBool(b == 0):
            raise ZeroDivisionError("integer division or modulo by zero")
        # Python floor semantics; z3 div/mod are euclidean: identical for b > 0
        if SymBool(b > 0):
            return SymInt(a % b if mod else a / b)
        q = z3.If(a % b == 0, a / b, z3.If(a >= 0, -((a) / (-b)) - 1, ((-a) / (-b))))
        return SymInt(a - b * q if mod else q)

    def __floordiv__(self, o):
        return self._idiv(o, False, False)

    def __rfloordiv__(self, o):
        return self._idiv(o, True, False)

    def __mod__(self, o):
        return self._idiv(o, False, True)

    def __rmod__(self, o):
        return self._idiv(o, True, True)

    # comparisons ------------------------------------------------------------------
    def _cmp(self, o, f):
        if not isinstance(o, (Sym, int, float, fractions.Fraction)) or isinstance(o, SymBool):
            return NotImplemented
        a, b = _coerce(self, o)
        return SymBool(f(a, b))

    def __lt__(self, o):
        return self._cmp(o, lambda a, b: a < b)

    def __le__(self, o):
        return self._cmp(o, lambda a, b: a <= b)

    def __gt__(self, o):
        return self._cmp(o, lambda a, b: a > b)

    def __ge__(self, o):
        return self._cmp(o, lambda a, b: a >= b)

    def __eq__(self, o):
        r = self._cmp(o, lambda a, b: a == b)
        return False if r is NotImplemented else r

    def __ne__(self, o):
        r = self._cmp(o, lambda a, b: a != b)
        return True if r is NotImplemented else r

    def __bool__(self):
        return CUR.branch(self.t != 0)

    def __repr__(self):
        return f"<{type(self).__name__} {z3.simplify(self.t)}>"

    def __format__(self, spec):
        return format(self.__index__(), spec) if isinstance(self, SymInt) else repr(self)


class SymInt(SymNum):
    def __index__(self):
        return CUR.concretize(self.t)

    __int__ = __index__

    def __hash__(self):
        return hash(CUR.concretize(self.t))

    def __str__(self):
        return str(CUR.concretize(self.t))

    def __float__(self):
        raise HarnessError("float(SymInt) reached the C level; `float` must be shadowed in this module")

    # bit operations against concrete masks (div/mod encoding keeps Int theory)
    def __and__(self, mask):
        if isinstance(mask, SymInt):
            raise HarnessError("symbolic & symbolic not supported")
        if mask < 0:
            raise HarnessError("negative mask")
        t, out, bit = self.t, z3.IntVal(0), 0
        while (1 << bit) <= mask:
            if mask & (1 << bit):
                out = out + ((t / (1 << bit)) % 2) * (1 << bit)
            bit += 1
        return SymInt(z3.simplify(out))

    __rand__ = __and__

    def __rshift__(self, n):
        return SymInt(self.t / (1 << n))

    def __lshift__(self, n):
        return SymInt(self.t * (1 << n))


class SymReal(SymNum):
    __slots__ = ("round_src",)

    def __hash__(self):
        return CUR.injective_hash(self.t)

    def __float__(self):
        raise HarnessError("float(SymReal) reached the C level")

    def __str__(self):
        return repr(self)


# --------------------------------------------------------------------------------------
# symbolic-aware builtins (installed as module-global shadows)


def sym_max(*a, **kw):
    if len(a) == 1:
        a = tuple(a[0])
    if not any(is_sym(x) for x in a) or kw:
        return builtins.max(a, **kw)
    r = a[0]
    for x in a[1:]:
        p, q = _coerce(r, x)
        r = _num(_pick(q > p, q, p))
    return r


def _pick(cond, x, y):
    """If(cond, x, y), but without the If when the solver shows one side is implied on this path."""
    cond = z3.simplify(cond)
    if z3.is_true(cond):
        return x
    if z3.is_false(cond):
        return y
    if CUR is not None:
        if CUR._check(z3.Not(cond)) == "unsat":
            return x
        if CUR._check(cond) == "unsat":
            return y
    return z3.If(cond, x, y)


def sym_min(*a, **kw):
    if len(a) == 1:
        a = tuple(a[0])
    if not any(is_sym(x) for x in a) or kw:
        return builtins.min(a, **kw)
    r = a[0]
    for x in a[1:]:
        p, q = _coerce(r, x)
        r = _num(_pick(q < p, q, p))
    return r


def sym_abs(x):
    return abs(x)


def sym_round(x, nd=None):
    """round-half-anything model: result k/10**nd with |x*10**nd - k| <= 1/2 (either neighbour on a tie)."""
    if not is_sym(x):
        return builtins.round(x, nd) if nd is not None else builtins.round(x)
    t = lift(x)
    if t.sort() == z3.IntSort():
        return x
    scale = 10 ** (nd or 0)
    k = CUR.fresh_int("rnd")
    CUR.add(scale * t - z3.ToReal(k) <= _frac(0.5), scale * t - z3.ToReal(k) >= -_frac(0.5))
    if nd is None:
        return SymInt(k)
    r = SymReal(z3.ToReal(k) / scale)
    r.round_src = (SymReal(t), nd)   # lets an oracle talk about the value *before* rounding (keeps Int/NRA apart)
    return r


def sym_len(x):
    if hasattr(x, "__symlen__"):
        return x.__symlen__()
    return builtins.len(x)


class Shadows:
    """int/float hooks with a placeholder registry (text->number boundary)."""

    def __init__(self):
        self.tok = {}  # bytes token -> SymInt

    def register(self, token, symint):
        self.tok[token if isinstance(token, bytes) else str(token).encode()] = symint

    def _lookup(self, x):
        if isinstance(x, str):
            x = x.strip().encode("latin-1", "ignore")
        elif isinstance(x, (bytes, bytearray)):
            x = bytes(x).strip()
        else:
            return None
        return self.tok.get(x)

    def int(self, x=0, base=10):
        if isinstance(x, SymInt):
            return x
        if isinstance(x, SymReal):  # truncation toward zero
            t = x.t
            return SymInt(z3.If(t >= 0, z3.ToInt(t), -z3.ToInt(-t)))
        if isinstance(x, SymBool):
            return SymInt(z3.If(x.t, 1, 0))
        v = self._lookup(x)
        if v is not None:
            return v
        if hasattr(x, "__symint__"):
            return x.__symint__(base)
        if isinstance(x, (str, bytes, bytearray)):
            return builtins.int(x, base)
        return builtins.int(x)

    def float(self, x=0.0):
        if isinstance(x, SymReal):
            return x
        if isinstance(x, SymInt):
            return SymReal(z3.ToReal(x.t))
        v = self._lookup(x)
        if v is not None:
            return SymReal(z3.ToReal(v.t))
        return builtins.float(x)

    def install(self, *modules):
        names = dict(int=self.int, float=self.float, max=sym_max, min=sym_min, round=sym_round, len=sym_len)
        for m in modules:
            for k, v in names.items():
                setattr(m, k, v)
        self._mods = modules
        self._names = names

    def uninstall(self):
        for m in self._mods:
            for k in self._names:
                if k in vars(m):
                    delattr(m, k)


# --------------------------------------------------------------------------------------
# Explorer


class Stats:
    FIELDS = ("paths", "queries", "decisions", "truncated", "inconclusive", "infeasible", "obligations", "discharged",
              "nontrivial", "cache_hits")

    def __init__(self):
        for f in self.FIELDS:
            setattr(self, f, 0)
        self.solver_s = 0.0

    def as_dict(self):
        d = {f: getattr(self, f) for f in self.FIELDS}
        d["solver_s"] = self.solver_s
        return d


class Finding:
    def __init__(self, label, assignment, detail="", known=None):
        self.label, self.assignment, self.detail, self.known = label, assignment, detail, known

    def __repr__(self):
        return f"Finding({self.label}, {self.assignment}, {self.detail}, known={self.known})"


def model_value(v):
    if z3.is_int_value(v):
        return v.as_long()
    if z3.is_rational_value(v):
        return fractions.Fraction(v.numerator_as_long(), v.denominator_as_long())
    if z3.is_true(v) or z3.is_false(v):
        return z3.is_true(v)
    if z3.is_algebraic_value(v):
        return fractions.Fraction(v.approx(20).numerator_as_long(), v.approx(20).denominator_as_long())
    return str(v)


def evaluate(model, x):
    """Value of a (possibly symbolic, possibly nested) result under a model: ordinary Python data."""
    if isinstance(x, (SymNum, SymBool)):
        return model_value(model.eval(x.t, model_completion=True))
    if hasattr(x, "items") and hasattr(x, "kind") and isinstance(x, Sym):      # SymSeq
        vals = [c if isinstance(c, int) else model_value(model.eval(c, model_completion=True)) for c in x.items]
        return bytes(vals) if x.kind == "bytes" else "".join(map(chr, vals))
    if isinstance(x, tuple) and hasattr(x, "_fields"):
        return tuple(evaluate(model, y) for y in x)
    if isinstance(x, (list, tuple)):
        return type(x)(evaluate(model, y) for y in x)
    if isinstance(x, dict):
        return {evaluate(model, k): evaluate(model, v) for k, v in x.items()}
    return x


class Explorer:
    """Runs `fn(ctx)` over all feasible paths (DFS over decision prefixes; the harness is re-executed per path)."""

    def __init__(self, timeout_ms=10000, concretize_cap=64, known=()):
        self.stats = Stats()
        self.timeout_ms, self.cap = timeout_ms, concretize_cap
        self.findings = []
        self.witness = {}      # label -> assignment reaching it
        self.path_models = []  # (assignment, evaluated observations) per completed path
        self.vars = {}
        self.known = list(known)   # known-finding regions applicable to this harness: dicts with label, region, id
        self.errors = []

    # -- solver helpers --------------------------------------------------------------
    def _check(self, *extra):
        t = time.time()
        self.stats.queries += 1
        r = self.solver.check(*extra)
        self.stats.solver_s += time.time() - t
        r = str(r)
        if r == "sat" and not extra:
            self.model = self.solver.model()
        return r

    def add(self, *c):
        self.solver.add(*c)
        if self.model is not None:
            for x in c:
                if not z3.is_true(self.model.eval(x, model_completion=True)):
                    self.model = None
                    break

    def fresh_int(self, prefix):
        self._fresh += 1
        return z3.Int(f"_{prefix}{self._fresh}")

    def fresh_real(self, prefix):
        self._fresh += 1
        return z3.Real(f"_{prefix}{self._fresh}")

    def declare(self, name, var):
        self.vars[name] = var

    def current_model(self):
        if self.model is None:
            if self._check() != "sat":
                return None
        return self.model

    def branch(self, cond):
        cond = z3.simplify(cond)
        if z3.is_true(cond):
            return True
        if z3.is_false(cond):
            return False
        i = len(self.trace)
        if i < len(self.prefix):
            d = self.prefix[i]
        else:
            # the cached model of the path condition decides one side for free
            side = None
            m = self.model
            if m is not None:
                v = m.eval(cond, model_completion=True)
                if z3.is_true(v):
                    side = True
                elif z3.is_false(v):
                    side = False
            if side is None:
                rt = self._check(cond)
                if rt == "sat":
                    keep = self.solver.model()
                rf = self._check(z3.Not(cond))
                if "unknown" in (rt, rf):
                    self.stats.inconclusive += 1
                can_t, can_f = rt != "unsat", rf != "unsat"
                self.model = keep if rt == "sat" else None
            else:
                self.stats.cache_hits += 1
                ro = self._check(z3.Not(cond) if side else cond)
                if ro == "unknown":
                    self.stats.inconclusive += 1
                can_t = side or ro != "unsat"
                can_f = (not side) or ro != "unsat"
                self.model = m     # still a model of the path condition; valid for the side it satisfies
            if can_t and can_f:
                self.work.append(self.trace + [False])
                d = True
            elif can_t:
                d = True
            elif can_f:
                d = False
            else:
                raise Abort()
        self.trace.append(d)
        self.stats.decisions += 1
        c = cond if d else z3.Not(cond)
        self.solver.add(c)
        if self.model is not None and not z3.is_true(self.model.eval(c, model_completion=True)):
            self.model = None
        return d

    def concretize(self, t):
        """Fork over all feasible integer values of term t (bounded by cap)."""
        t = z3.simplify(t)
        if z3.is_int_value(t):
            return t.as_long()
        for _ in range(self.cap):
            m = self.current_model()
            if m is None:
                raise Abort()
            v = m.eval(t, model_completion=True)
            if self.branch(t == v):
                return v.as_long()
        raise HarnessError(f"BOUND-EXCEEDED: concretisation cap {self.cap} exceeded for {t}")

    def pinned(self, t):
        """If term t can take only one value on this path, return it as a z3 numeral (else None)."""
        t = z3.simplify(t)
        if z3.is_rational_value(t) or z3.is_int_value(t):
            return t
        m = self.current_model()
        if m is None:
            return None
        v = m.eval(t, model_completion=True)
        if not (z3.is_rational_value(v) or z3.is_int_value(v)):
            return None
        return v if self._check(t != v) == "unsat" else None

    def quotient(self, a, b):
        """Lazy abstraction of a/b for symbolic b: a fresh real q with linear consequences asserted and the
        exact definition q*b == a kept aside; any `sat` answer to an obligation is re-checked with the
        exact definitions before it counts (so the abstraction can only cost completeness, never soundness)."""
        key = (a.get_id(), b.get_id())
        if key in self._quot:
            return self._quot[key][0]
        self._fresh += 1
        q = z3.Real(f"_q{self._fresh}")
        self._quot[key] = (q, a, b)
        self._quot_by_var[q.get_id()] = (a, b)
        self.exact_defs.append(q * b == a)
        facts = [z3.Implies(a == 0, q == 0), z3.Implies(a == b, q == 1)]
        for sgn_b, flip in ((b > 0, 1), (b < 0, -1)):
            for c in (0, 1, 100, -1):
                le, ge = (a <= c * b, a >= c * b) if flip == 1 else (a >= c * b, a <= c * b)
                facts.append(z3.Implies(z3.And(sgn_b, le), q <= c))
                facts.append(z3.Implies(z3.And(sgn_b, ge), q >= c))
        self.add(*facts)
        return q

    def injective_hash(self, t):
        for u, h in self._hashed:
            if self.branch(t == u):
                return h
        h = 7919 + len(self._hashed)
        self._hashed.append((t, h))
        return h

    # -- model extraction -------------------------------------------------------------
    def assignment(self, model):
        return {name: model_value(model.eval(var, model_completion=True)) for name, var in self.vars.items()}

    # -- main loop --------------------------------------------------------------------
    def run(self, fn, cfg=None, prefixes=None, budget_paths=None, budget_s=None, tracer=None):
        """Explore from the given decision prefixes; returns the prefixes left unexplored when a budget ran out."""
        global CUR
        cfg = cfg or {}
        self.work = [list(p) for p in (prefixes if prefixes is not None else [[]])]
        t0 = time.time()
        done = 0
        while self.work:
            if (budget_paths is not None and done >= budget_paths) or (budget_s is not None and time.time() - t0 > budget_s):
                break
            self.prefix = self.work.pop()
            self.trace = []
            self.solver = z3.Solver()
            self.solver.set("timeout", self.timeout_ms)
            self.model = None
            self._fresh = 0
            self._hashed = []
            self._quot = {}
            self._quot_by_var = {}
            self.exact_defs = []
            self.vars = {}
            ctx = SymCtx(self)
            CUR = self
            done += 1
            try:
                if tracer is not None and self.stats.paths < 2:
                    with tracer:
                        fn(ctx, **cfg)
                else:
                    fn(ctx, **cfg)
                self.stats.paths += 1
                m = self.current_model()
                if m is not None:
                    self.path_models.append((self.assignment(m), [(l, evaluate(m, v)) for l, v in ctx.observed]))
            except Abort:
                self.stats.infeasible += 1
            except BoundExceeded:
                self.stats.truncated += 1
            finally:
                CUR = None
        left, self.work = self.work, []
        return left


def _boolterm(c):
    return z3.BoolVal(c) if isinstance(c, builtins.bool) else lift(c)


class _RegionNS(dict):
    """Namespace in which a known-finding region expression is evaluated (z3 terms or concrete values)."""

    def __init__(self, symbolic, values):
        super().__init__(values)
        if symbolic:
            self.update(And=z3.And, Or=z3.Or, Not=z3.Not, Implies=z3.Implies)
        else:
            self.update(And=lambda *a: builtins.all(a), Or=lambda *a: builtins.any(a), Not=lambda a: not a,
                        Implies=lambda a, b: (not a) or builtins.bool(b))


def region_holds(expr, values, symbolic=False):
    """Evaluate a region expression; an undeclared variable means the region does not apply (None)."""
    try:
        return eval(expr, {"__builtins__": {"any": builtins.any, "all": builtins.all, "range": range, "len": builtins.len}},
                    _RegionNS(symbolic, values))
    except NameError:
        return None


class SymCtx:
    symbolic = True

    def __init__(self, ex):
        self.ex = ex
        self.observed = []
        self.cfg_values = {}

    # inputs -------------------------------------------------------------------------
    def int(self, name, lo=None, hi=None):
        v = z3.Int(name)
        self.ex.declare(name, v)
        if lo is not None:
            self.ex.add(v >= lo)
        if hi is not None:
            self.ex.add(v <= hi)
        return SymInt(v)

    def real(self, name, lo=None, hi=None):
        v = z3.Real(name)
        self.ex.declare(name, v)
        if lo is not None:
            self.ex.add(v >= lift(lo))
        if hi is not None:
            self.ex.add(v <= lift(hi))
        return SymReal(v)

    def bool(self, name):
        v = z3.Bool(name)
        self.ex.declare(name, v)
        return SymBool(v)

    def flag(self, name):
        """A symbolic boolean decided immediately (forks): returns a Python bool."""
        return builtins.bool(self.bool(name))

    def choice(self, name, options):
        i = self.int(name, 0, len(options) - 1)
        return options[i.__index__()]

    # assertions ---------------------------------------------------------------------
    def assume(self, cond):
        self.ex.add(_boolterm(cond))
        if self.ex._check() == "unsat":
            raise Abort()

    def reach(self, label):
        """Reachability witness without an obligation."""
        ex = self.ex
        if label not in ex.witness:
            m = ex.current_model()
            if m is not None:
                ex.witness[label] = ex.assignment(m)

    def prove(self, cond, label, detail=""):
        ex = self.ex
        ex.stats.obligations += 1
        self.reach(label)
        c = _boolterm(cond)
        if not z3.is_true(z3.simplify(c)):
            ex.stats.nontrivial += 1
        extra = []
        for _ in range(8):
            r = ex._check(z3.Not(c), *extra)
            if r == "sat" and ex.exact_defs:
                r = ex._check(z3.Not(c), *(extra + ex.exact_defs))      # refine: the abstraction of a/b made exact
            if r == "unsat":
                if not extra:
                    ex.stats.discharged += 1
                return not extra
            if r == "unknown":
                ex.stats.inconclusive += 1
                return None
            m = ex.solver.model()
            a = ex.assignment(m)
            det = detail(m) if callable(detail) else detail
            hit = None
            for kf in ex.known:
                if label.startswith(kf["label"]) and kf.get("region"):
                    vals = dict(a)
                    vals.update(self.cfg_values)
                    if region_holds(kf["region"], vals) is True:
                        hit = kf
                        break
            ex.findings.append(Finding(label, a, det, known=hit["id"] if hit else None))
            if hit is None:
                return False
            # inside a known region: look for a different counterexample outside it
            zvals = dict(ex.vars)
            zvals.update(self.cfg_values)
            reg = region_holds(hit["region"], zvals, symbolic=True)
            if reg is None or isinstance(reg, builtins.bool):
                return False
            extra.append(z3.Not(reg))
        return False

    def observe(self, label, value):
        self.observed.append((label, value))

    # term helpers (work in both modes) ----------------------------------------------
    @staticmethod
    def all(items):
        items = [_boolterm(x) for x in items]
        return SymBool(z3.And(*items)) if items else True

    @staticmethod
    def any(items):
        items = [_boolterm(x) for x in items]
        return SymBool(z3.Or(*items)) if items else False

    @staticmethod
    def implies(a, b):
        return SymBool(z3.Implies(_boolterm(a), _boolterm(b)))

    @staticmethod
    def neg(a):
        return SymBool(z3.Not(_boolterm(a)))

    @staticmethod
    def ite(c, a, b):
        if isinstance(c, builtins.bool):
            return a if c else b
        x, y = _coerce(a, b)
        return _num(z3.If(lift(c), x, y))

    @staticmethod
    def eq(a, b):
        """Equality as a term (no fork)."""
        if hasattr(a, "eq_term"):
            return SymBool(a.eq_term(b))
        if hasattr(b, "eq_term"):
            return SymBool(b.eq_term(a))
        if isinstance(a, (tuple, list)) and isinstance(b, (tuple, list)):
            if len(a) != len(b):
                return False
            return SymCtx.all([SymCtx.eq(x, y) for x, y in zip(a, b)])
        if is_sym(a) or is_sym(b):
            if not (isinstance(a, (Sym, int, float, fractions.Fraction)) and isinstance(b, (Sym, int, float, fractions.Fraction))):
                return False
            if isinstance(a, SymBool) or isinstance(b, SymBool):
                return SymBool(_boolterm(a) == _boolterm(b))
            x, y = _coerce(a, b)
            return SymBool(x == y)
        if isinstance(a, float) or isinstance(b, float):
            try:
                return fractions.Fraction(a) == fractions.Fraction(b)
            except (TypeError, ValueError):
                return a == b
        return a == b

    max = staticmethod(sym_max)
    min = staticmethod(sym_min)

    @staticmethod
    def sum(items):
        r = 0
        for x in items:
            r = r + x
        return r

    @staticmethod
    def div(a, b):
        """Exact a/b (b a concrete non-zero int)."""
        if is_sym(a):
            return a / b
        return fractions.Fraction(a) / b

    @staticmethod
    def trunc(x):
        """Truncation toward zero of a real-valued term (Python int())."""
        if isinstance(x, SymReal):
            return SymInt(z3.If(x.t >= 0, z3.ToInt(x.t), -z3.ToInt(-x.t)))
        if is_sym(x):
            return x
        return builtins.int(x)


def _tol_eq(a, b):
    if isinstance(a, (tuple, list)) and isinstance(b, (tuple, list)):
        return len(a) == len(b) and builtins.all(_tol_eq(x, y) for x, y in zip(a, b))
    num = (int, float, fractions.Fraction)
    if isinstance(a, num) and isinstance(b, num) and not isinstance(a, builtins.bool) and not isinstance(b, builtins.bool):
        if isinstance(a, float) or isinstance(b, float):
            fa, fb = builtins.float(a), builtins.float(b)
            return fa == fb or builtins.abs(fa - fb) <= 1e-9 * builtins.max(builtins.abs(fa), builtins.abs(fb), 1e-300) + 1e-12
        return a == b
    return a == b


class ConcreteCtx:
    """Same interface, ordinary Python values taken from an assignment."""

    symbolic = False

    def __init__(self, assignment):
        self.a = assignment
        self.failed = []
        self.details = {}
        self.observed = []
        self.cfg_values = {}

    # a variable declared after the model was taken was unconstrained then: any in-range value will do
    def int(self, name, lo=None, hi=None):
        return builtins.int(self.a.get(name, lo if lo is not None else 0))

    def real(self, name, lo=None, hi=None):
        return fractions.Fraction(self.a.get(name, lo if lo is not None else 0))

    def bool(self, name):
        return builtins.bool(self.a.get(name, False))

    flag = bool

    def choice(self, name, options):
        return options[self.a.get(name, 0)]

    def assume(self, cond):
        if not cond:
            raise Abort()

    def reach(self, label):
        pass

    def prove(self, cond, label, detail=""):
        if not cond:
            self.failed.append(label)
            self.details[label] = detail(None) if callable(detail) else detail
        return builtins.bool(cond)

    def observe(self, label, value):
        self.observed.append((label, value))

    all = staticmethod(lambda items: builtins.all(items))
    any = staticmethod(lambda items: builtins.any(items))
    implies = staticmethod(lambda a, b: (not a) or builtins.bool(b))
    neg = staticmethod(lambda a: not a)
    ite = staticmethod(lambda c, a, b: a if c else b)
    eq = staticmethod(_tol_eq)
    max = staticmethod(builtins.max)
    min = staticmethod(builtins.min)
    sum = staticmethod(lambda items: builtins.sum(items))

    @staticmethod
    def div(a, b):
        return fractions.Fraction(a) / b

    @staticmethod
    def trunc(x):
        return builtins.int(x)
