"""psym core (design-phase prototype, v2): proxy-based symbolic execution of real Python code.

The code under test runs natively; values are proxies building z3 terms; SymBool.__bool__ forks.
Exploration = DFS over decision prefixes, harness re-executed per path.
"""
import builtins
import fractions
import math
import time

import z3

# --------------------------------------------------------------------------------------
# control-flow exceptions (BaseException so `except Exception` in code under test lets them pass)


class Abort(BaseException):
    """Current path is infeasible / pruned."""


class BoundExceeded(BaseException):
    """An environment-driven loop ran past its stated bound (path truncated, outside the claim)."""


class Stop(BaseException):
    """The harness ends this path early (after recording a failed obligation); the path counts as completed."""


class HarnessError(BaseException):
    """The machinery cannot vouch for its own answer."""


# --------------------------------------------------------------------------------------

CUR = None  # the active Explorer (one per process)


def _frac(x):
    f = fractions.Fraction(x)
    return z3.RealVal(f"{f.numerator}/{f.denominator}")


def lift(x):
    """Python/proxy value -> z3 term."""
    if isinstance(x, Sym):
        return x.t
    if isinstance(x, bool):
        return z3.BoolVal(x)
    if isinstance(x, int):
        return z3.IntVal(x)
    if isinstance(x, float):
        return _frac(x)
    if isinstance(x, fractions.Fraction):
        return z3.RealVal(f"{x.numerator}/{x.denominator}")
    if z3.is_expr(x):
        return x
    raise TypeError(f"cannot lift {type(x)!r}")


def is_sym(x):
    return isinstance(x, Sym)


def _num(t):
    return SymReal(t) if t.sort() == z3.RealSort() else SymInt(t)


def _coerce(a, b):
    a, b = lift(a), lift(b)
    if a.sort() != b.sort():
        if a.sort() == z3.IntSort():
            a = z3.ToReal(a)
        if b.sort() == z3.IntSort():
            b = z3.ToReal(b)
    return a, b


# --------------------------------------------------------------------------------------
# Scaled-integer representation of reals: value = n / D with n an Int term and D a concrete positive int.
# psutil's floats are ticks/100, kB*1024/2, sums and constant multiples of those: keeping them as n/D keeps
# every comparison, min/max, truncation and rounding in linear *integer* arithmetic (no ToInt, no mixed sorts).


def _rep(x):
    """(n, D) with x == n/D, n a z3 Int term, or None when x has no such form."""
    if isinstance(x, SymReal):
        return x.rep
    if isinstance(x, SymInt):
        return (x.t, 1)
    if isinstance(x, bool) or isinstance(x, SymBool):
        return None
    if isinstance(x, int):
        return (z3.IntVal(x), 1)
    if isinstance(x, (float, fractions.Fraction)):
        f = fractions.Fraction(x)
        return (z3.IntVal(f.numerator), f.denominator)
    return None


def _const_frac(x):
    """x as an exact Fraction when it is a plain number or a proxy whose term is a numeral, else None."""
    if isinstance(x, bool):
        return None
    if isinstance(x, (int, float, fractions.Fraction)):
        return fractions.Fraction(x)
    if isinstance(x, SymNum):
        r = _rep(x)
        if r is not None:
            n = z3.simplify(r[0])
            if z3.is_int_value(n):
                return fractions.Fraction(n.as_long(), r[1])
            return None
        t = z3.simplify(x.t)
        if z3.is_rational_value(t):
            return fractions.Fraction(t.numerator_as_long(), t.denominator_as_long())
    return None


def _from_rep(n, D):
    if D < 0:
        n, D = -n, -D
    ns = z3.simplify(n)
    if z3.is_int_value(ns):
        f = fractions.Fraction(ns.as_long(), D)
        ns, D = z3.IntVal(f.numerator), f.denominator
    r = SymReal(z3.ToReal(ns) / D if D != 1 else z3.ToReal(ns))
    r.rep = (ns, D)
    return r


def _common(ra, rb):
    """Bring two reps to a common denominator: (na, nb, L)."""
    (na, da), (nb, db) = ra, rb
    if da == db:
        return na, nb, da
    L = da * db // math.gcd(da, db)
    return na * (L // da), nb * (L // db), L


class Sym:
    __slots__ = ("t",)


class SymBool(Sym):
    def __init__(self, t):
        self.t = t

    def __bool__(self):
        if CUR is None:  # concrete mode: the term must fold to a constant
            v = z3.simplify(self.t)
            if z3.is_true(v):
                return True
            if z3.is_false(v):
                return False
            raise HarnessError(f"symbolic condition outside exploration: {v}")
        return CUR.branch(self.t)

    def __repr__(self):
        return f"<SymBool {z3.simplify(self.t)}>"

    def __and__(self, o):
        return SymBool(z3.And(self.t, lift(o)))

    def __or__(self, o):
        return SymBool(z3.Or(self.t, lift(o)))

    def __invert__(self):
        return SymBool(z3.Not(self.t))

    __rand__, __ror__ = __and__, __or__


class SymNum(Sym):
    __slots__ = ()

    def __init__(self, t):
        self.t = t

    # arithmetic -------------------------------------------------------------------
    def _bin(self, o, f, r=False):
        if not isinstance(o, (Sym, int, float, fractions.Fraction)) or isinstance(o, SymBool):
            return NotImplemented
        if not (isinstance(self, SymInt) and isinstance(o, (SymInt, int))):
            ra, rb = _rep(self), _rep(o)
            if ra is not None and rb is not None:
                if r:
                    ra, rb = rb, ra
                na, nb, L = _common(ra, rb)
                return _from_rep(f(na, nb), L)
        a, b = _coerce(self, o)
        if r:
            a, b = b, a
        return _num(f(a, b))

    def __add__(self, o):
        return self._bin(o, lambda a, b: a + b)

    def __radd__(self, o):
        return self._bin(o, lambda a, b: a + b, True)

    def __sub__(self, o):
        return self._bin(o, lambda a, b: a - b)

    def __rsub__(self, o):
        return self._bin(o, lambda a, b: a - b, True)

    def _mul(self, o):
        if not isinstance(o, (Sym, int, float, fractions.Fraction)) or isinstance(o, SymBool):
            return NotImplemented
        if not (isinstance(self, SymInt) and isinstance(o, (SymInt, int))):
            for x, y in ((self, o), (o, self)):
                c, ry = _const_frac(x), _rep(y)
                if c is not None and ry is not None:
                    return _from_rep(ry[0] * c.numerator, ry[1] * c.denominator)
        a, b = _coerce(self, o)
        if CUR is not None and a.sort() == z3.RealSort():
            # x * (n/d) with an abstracted quotient: fold into the numerator, (x*n)/d, so terms stay linear
            for u, v in ((a, b), (b, a)):
                ent = CUR._quot_by_var.get(u.get_id())
                if ent is not None and not z3.is_rational_value(z3.simplify(v)):
                    n, d = ent
                    if z3.is_rational_value(z3.simplify(n)):
                        return SymReal(CUR.quotient(z3.simplify(v * n), d))
        if CUR is not None and not (z3.is_rational_value(z3.simplify(a)) or z3.is_int_value(z3.simplify(a)) or z3.is_rational_value(z3.simplify(b)) or z3.is_int_value(z3.simplify(b))):
            for u, v, vo in ((a, b, o), (b, a, self)):
                c = CUR.pinned(u)
                if c is not None:
                    cf = _const_frac(_num(c))
                    rv = _rep(vo)
                    if cf is not None and rv is not None:
                        return _from_rep(rv[0] * cf.numerator, rv[1] * cf.denominator)
                    return _num(c * v)
        return _num(a * b)

    def __mul__(self, o):
        return self._mul(o)

    def __rmul__(self, o):
        return self._mul(o)

    def __neg__(self):
        r = _rep(self) if isinstance(self, SymReal) else None
        if r is not None:
            return _from_rep(-r[0], r[1])
        return _num(-self.t)

    def __pos__(self):
        return self

    def __abs__(self):
        r = _rep(self) if isinstance(self, SymReal) else None
        if r is not None:
            return _from_rep(z3.If(r[0] >= 0, r[0], -r[0]), r[1])
        return _num(z3.If(self.t >= 0, self.t, -self.t))

    def _div(self, o, r=False):
        if not isinstance(o, (Sym, int, float, fractions.Fraction)):
            return NotImplemented
        num, den = (o, self) if r else (self, o)
        a, b = _coerce(num, den)
        if a.sort() == z3.IntSort():
            a, b = z3.ToReal(a), z3.ToReal(b)
        rd = _rep(den)
        if SymBool(rd[0] == 0 if rd is not None else b == 0):
            raise ZeroDivisionError("division by zero")
        cf = _const_frac(den)
        if cf is None and CUR is not None:
            v = CUR.pinned(b)              # denominator pinned by the path condition: still linear
            if v is not None:
                cf = _const_frac(_num(v))
        if cf is not None:                 # division by a constant stays linear (and in integers when possible)
            rn = _rep(num)
            if rn is not None:
                return _from_rep(rn[0] * cf.denominator, rn[1] * cf.numerator)
            return SymReal(a / _frac(cf))
        if CUR is None:
            return SymReal(a / b)
        return SymReal(CUR.quotient(z3.simplify(a), z3.simplify(b)))

    def __truediv__(self, o):
        return self._div(o)

    def __rtruediv__(self, o):
        return self._div(o, True)

    def _idiv(self, o, r, mod):
        if isinstance(self, SymReal) or isinstance(o, (SymReal, float, fractions.Fraction)):
            # float floor division / modulo by a positive constant, in scaled integers: floor((n/D) / (p/q)) = floor(n*q / (D*p))
            num, den = (o, self) if r else (self, o)
            cf, rn = _const_frac(den), _rep(num)
            if cf is None or cf <= 0 or rn is None:
                raise HarnessError("floor division of reals is modelled only for a positive constant divisor")
            n, D = rn
            q = (n * cf.denominator) / (D * cf.numerator)          # z3 Int division floors for a positive divisor
            if mod:
                return _from_rep(n * cf.denominator - q * (D * cf.numerator), D * cf.denominator)
            return _from_rep(q, 1)
        if not isinstance(o, (SymInt, int)) or not isinstance(self, SymInt):
            return NotImplemented
        a, b = lift(self), lift(o)
        if r:
            a, b = b, a
        if SymBool(b == 0):
            raise ZeroDivisionError("integer division or modulo by zero")
        # Python floor semantics; z3 div/mod are euclidean: identical for b > 0
        if SymBool(b > 0):
            return SymInt(a % b if mod else a / b)
        q = z3.If(a % b == 0, a / b, z3.If(a >= 0, -((a) / (-b)) - 1, ((-a) / (-b))))
        return SymInt(a - b * q if mod else q)

    def __floordiv__(self, o):
        return self._idiv(o, False, False)

    def __rfloordiv__(self, o):
        return self._idiv(o, True, False)

    def __mod__(self, o):
        return self._idiv(o, False, True)

    def __rmod__(self, o):
        return self._idiv(o, True, True)

    # comparisons ------------------------------------------------------------------
    def _cmp(self, o, f):
        if not isinstance(o, (Sym, int, float, fractions.Fraction)) or isinstance(o, SymBool):
            return NotImplemented
        if not (isinstance(self, SymInt) and isinstance(o, (SymInt, int))):
            ra, rb = _rep(self), _rep(o)
            if ra is not None and rb is not None:
                na, nb, _ = _common(ra, rb)
                return SymBool(f(na, nb))
        a, b = _coerce(self, o)
        return SymBool(f(a, b))

    def __lt__(self, o):
        return self._cmp(o, lambda a, b: a < b)

    def __le__(self, o):
        return self._cmp(o, lambda a, b: a <= b)

    def __gt__(self, o):
        return self._cmp(o, lambda a, b: a > b)

    def __ge__(self, o):
        return self._cmp(o, lambda a, b: a >= b)

    def __eq__(self, o):
        r = self._cmp(o, lambda a, b: a == b)
        return False if r is NotImplemented else r

    def __ne__(self, o):
        r = self._cmp(o, lambda a, b: a != b)
        return True if r is NotImplemented else r

    def __bool__(self):
        return CUR.branch(self.t != 0)

    def __repr__(self):
        return f"<{type(self).__name__} {z3.simplify(self.t)}>"

    def __format__(self, spec):
        if isinstance(self, SymInt):
            if CUR is not None and not CUR.small_domain(self.t):
                # an unbounded number rendered into text (an error message): opaque marker, no forking.  If such a
                # text ever reaches the simulated OS as a path the strict stubs reject it (HARNESS-ERROR).
                return "<symbolic-int>"
            return format(self.__index__(), spec)
        return repr(self)


class SymInt(SymNum):
    def __index__(self):
        return CUR.concretize(self.t)

    __int__ = __index__

    def __hash__(self):
        # a number with few feasible values is forked over them (its hash is then the real hash of that value); one with many is
        # hashed by the injective model: equal to the hash of an earlier symbolic key iff the two are equal on this path (a CONCRETE key
        # of the same value is not found -- a stated cut; no harness mixes the two kinds in one table)
        if CUR.small_domain(self.t):
            return hash(CUR.concretize(self.t))
        return CUR.injective_hash(self.t)

    def __str__(self):
        return format(self, "")

    def __float__(self):
        raise HarnessError("float(SymInt) reached the C level; `float` must be shadowed in this module")

    # bit operations against concrete masks (div/mod encoding keeps Int theory)
    def __and__(self, mask):
        if isinstance(mask, SymInt):
            raise HarnessError("symbolic & symbolic not supported")
        if mask < 0:
            raise HarnessError("negative mask")
        t, out, bit = self.t, z3.IntVal(0), 0
        while (1 << bit) <= mask:
            if mask & (1 << bit):
                out = out + ((t / (1 << bit)) % 2) * (1 << bit)
            bit += 1
        return SymInt(z3.simplify(out))

    __rand__ = __and__

    def __rshift__(self, n):
        return SymInt(self.t / (1 << n))

    def __lshift__(self, n):
        return SymInt(self.t * (1 << n))


class SymReal(SymNum):
    __slots__ = ("round_src", "rep")

    def __init__(self, t):
        self.t = t
        self.rep = None

    def __hash__(self):
        return CUR.injective_hash(self.t)

    def __float__(self):
        raise HarnessError("float(SymReal) reached the C level")

    def __str__(self):
        return repr(self)


# --------------------------------------------------------------------------------------
# symbolic-aware builtins (installed as module-global shadows)


def sym_max(*a, **kw):
    if len(a) == 1:
        a = tuple(a[0])
    if not any(is_sym(x) for x in a) or kw:
        return builtins.max(a, **kw)
    r = a[0]
    for x in a[1:]:
        r = _select(r, x, lambda p, q: q > p)
    return r


def _select(r, x, better):
    """x if better(r, x) else r, in scaled integers when both have that form."""
    rr, rx = _rep(r), _rep(x)
    if rr is not None and rx is not None and not (isinstance(r, (SymInt, int)) and isinstance(x, (SymInt, int))):
        nr, nx, L = _common(rr, rx)
        return _from_rep(_pick(better(nr, nx), nx, nr), L)
    p, q = _coerce(r, x)
    return _num(_pick(better(p, q), q, p))


def _pick(cond, x, y):
    """If(cond, x, y), but without the If when the solver shows one side is implied on this path."""
    cond = z3.simplify(cond)
    if z3.is_true(cond):
        return x
    if z3.is_false(cond):
        return y
    if CUR is not None:
        if CUR._check(z3.Not(cond), quick=True) == "unsat":
            return x
        if CUR._check(cond, quick=True) == "unsat":
            return y
    return z3.If(cond, x, y)


def sym_min(*a, **kw):
    if len(a) == 1:
        a = tuple(a[0])
    if not any(is_sym(x) for x in a) or kw:
        return builtins.min(a, **kw)
    r = a[0]
    for x in a[1:]:
        r = _select(r, x, lambda p, q: q < p)
    return r


def sym_abs(x):
    return abs(x)


def sym_round(x, nd=None):
    """round-half-anything model: result k/10**nd with |x*10**nd - k| <= 1/2 (either neighbour on a tie)."""
    if not is_sym(x):
        return builtins.round(x, nd) if nd is not None else builtins.round(x)
    t = lift(x)
    if t.sort() == z3.IntSort():
        return x
    scale = 10 ** (nd or 0)
    k = CUR.fresh_int("rnd")
    rp = _rep(x)
    if rp is not None:      # |scale*n/D - k| <= 1/2  <=>  -D <= 2*scale*n - 2*k*D <= D   (integers only)
        n, D = rp
        CUR.add(2 * scale * n - 2 * k * D <= D, 2 * scale * n - 2 * k * D >= -D)
    else:
        CUR.add(scale * t - z3.ToReal(k) <= _frac(0.5), scale * t - z3.ToReal(k) >= -_frac(0.5))
    if nd is None:
        return SymInt(k)
    r = _from_rep(k, scale)
    r.round_src = (x if isinstance(x, SymReal) else SymReal(t), nd)   # lets an oracle talk about the value *before* rounding (keeps Int/NRA apart)
    return r


def sym_trunc(x):
    """int(real): truncation toward zero; integer division when the value has the n/D form."""
    rp = _rep(x)
    if rp is not None:
        n, D = rp
        if D == 1:
            return SymInt(n)
        return SymInt(z3.If(n >= 0, n / D, -((-n) / D)))
    t = x.t
    return SymInt(z3.If(t >= 0, z3.ToInt(t), -z3.ToInt(-t)))


def sym_len(x):
    if hasattr(x, "__symlen__"):
        return x.__symlen__()
    return builtins.len(x)


class Shadows:
    """int/float hooks with a placeholder registry (text->number boundary)."""

    def __init__(self):
        self.tok = {}  # bytes token -> SymInt

    def register(self, token, symint):
        self.tok[token if isinstance(token, bytes) else str(token).encode()] = symint

    def _lookup(self, x):
        if isinstance(x, str):
            x = x.strip().encode("latin-1", "ignore")
        elif isinstance(x, (bytes, bytearray)):
            x = bytes(x).strip()
        else:
            return None
        return self.tok.get(x)

    def int(self, x=0, base=10):
        if isinstance(x, SymInt):
            return x
        if isinstance(x, SymReal):  # truncation toward zero
            return sym_trunc(x)
        if isinstance(x, SymBool):
            return SymInt(z3.If(x.t, 1, 0))
        v = self._lookup(x)
        if v is not None:
            return v
        if hasattr(x, "__symint__"):
            return x.__symint__(base)
        if isinstance(x, (str, bytes, bytearray)):
            return builtins.int(x, base)
        return builtins.int(x)

    def float(self, x=0.0):
        if isinstance(x, SymReal):
            return x
        if isinstance(x, SymInt):
            return _from_rep(x.t, 1)
        v = self._lookup(x)
        if v is not None:
            return _from_rep(v.t, 1)
        return builtins.float(x)

    def install(self, *modules):
        names = dict(int=self.int, float=self.float, max=sym_max, min=sym_min, round=sym_round, len=sym_len)
        for m in modules:
            for k, v in names.items():
                setattr(m, k, v)
        self._mods = modules
        self._names = names

    def uninstall(self):
        for m in self._mods:
            for k in self._names:
                if k in vars(m):
                    delattr(m, k)


# --------------------------------------------------------------------------------------
# Explorer


class Stats:
    FIELDS = ("paths", "queries", "decisions", "truncated", "inconclusive", "infeasible", "obligations", "discharged",
              "nontrivial", "cache_hits")

    def __init__(self):
        for f in self.FIELDS:
            setattr(self, f, 0)
        self.solver_s = 0.0

    def as_dict(self):
        d = {f: getattr(self, f) for f in self.FIELDS}
        d["solver_s"] = self.solver_s
        return d


class Finding:
    def __init__(self, label, assignment, detail="", known=None):
        self.label, self.assignment, self.detail, self.known = label, assignment, detail, known

    def __repr__(self):
        return f"Finding({self.label}, {self.assignment}, {self.detail}, known={self.known})"


def model_value(v):
    if z3.is_int_value(v):
        return v.as_long()
    if z3.is_rational_value(v):
        return fractions.Fraction(v.numerator_as_long(), v.denominator_as_long())
    if z3.is_true(v) or z3.is_false(v):
        return z3.is_true(v)
    if z3.is_algebraic_value(v):
        return fractions.Fraction(v.approx(20).numerator_as_long(), v.approx(20).denominator_as_long())
    return str(v)


def evaluate(model, x):
    """Value of a (possibly symbolic, possibly nested) result under a model: ordinary Python data."""
    if isinstance(x, (SymNum, SymBool)):
        return model_value(model.eval(x.t, model_completion=True))
    if hasattr(x, "items") and hasattr(x, "kind") and isinstance(x, Sym):      # SymSeq
        vals = [c if isinstance(c, int) else model_value(model.eval(c, model_completion=True)) for c in x.items]
        return bytes(vals) if x.kind == "bytes" else "".join(map(chr, vals))
    if isinstance(x, tuple) and hasattr(x, "_fields"):
        return tuple(evaluate(model, y) for y in x)
    if isinstance(x, (list, tuple)):
        return type(x)(evaluate(model, y) for y in x)
    if isinstance(x, dict):
        return {evaluate(model, k): evaluate(model, v) for k, v in x.items()}
    return x


def _site():
    """psutil source line that asked for the current branch decision (for diagnostics)"""
    import sys as _sys

    f = _sys._getframe(2)
    while f is not None:
        fn = f.f_code.co_filename
        if "/psutil/" in fn or "/harness/" in fn:
            return f"{fn.rsplit('/', 1)[-1]}:{f.f_lineno}"
        f = f.f_back
    return "?"


class Explorer:
    """Runs `fn(ctx)` over all feasible paths (DFS over decision prefixes; the harness is re-executed per path)."""

    def __init__(self, timeout_ms=10000, concretize_cap=64, known=()):
        self.stats = Stats()
        self.timeout_ms, self.cap = timeout_ms, concretize_cap
        self.findings = []
        self.witness = {}      # label -> assignment reaching it
        self.path_models = []  # (assignment, evaluated observations) per completed path
        self.vars = {}
        self.known = list(known)   # known-finding regions applicable to this harness: dicts with label, region, id
        self.errors = []
        self.unknowns = []
        self.reverse = False        # explore the False side of every two-way branch first (state-leak detector of the thorough tier)
        self.second_budget = 0      # obligations still to be re-decided by the independent solver binaries (thorough tier)
        self.second_checked = 0
        self.second_disagreements = []

    # -- solver helpers --------------------------------------------------------------
    def _check(self, *extra, quick=False):
        t = time.time()
        self.stats.queries += 1
        if quick:       # optimisation-only query (implied-branch pruning, pinning): unknown just means "no shortcut"
            self.solver.set("timeout", 500)
            try:
                r = self.solver.check(*extra)
            finally:
                self.solver.set("timeout", self.timeout_ms)
        else:
            r = self.solver.check(*extra)
            if str(r) == "unknown":
                # z3's budget is wall-clock time: on a loaded machine a query can run out of it without having run.  One retry with
                # six times the budget; a second `unknown` is reported as inconclusive by the caller.
                self.solver.set("timeout", 6 * self.timeout_ms)
                try:
                    r = self.solver.check(*extra)
                finally:
                    self.solver.set("timeout", self.timeout_ms)
        self.stats.solver_s += time.time() - t
        r = str(r)
        if r == "sat" and not extra:
            self.model = self.solver.model()
        return r

    def cross_check(self, negated, verdict, label):
        """Re-decide one obligation (path condition AND NOT property) with the stand-alone z3 4.8.12 and cvc5 1.0.3 binaries
        on the exported SMT-LIB2 text; a sat/unsat disagreement with the in-process z3 5.x is a harness error."""
        import os as _os
        import subprocess
        import tempfile

        self.solver.push()
        try:
            self.solver.add(negated)
            text = self.solver.to_smt2()
        finally:
            self.solver.pop()
            self.model = None
        fd, path = tempfile.mkstemp(suffix=".smt2", dir=_os.environ.get("TMPDIR", "/tmp"))
        try:
            with _os.fdopen(fd, "w") as f:
                f.write("(set-logic ALL)\n" + text)
            answers = {}
            for name, cmd in (("z3-4.8.12", ["/usr/bin/z3", "-T:20", path]), ("cvc5-1.0.3", ["cvc5", "--tlimit=20000", path])):
                try:
                    out = subprocess.run(cmd, capture_output=True, text=True, timeout=40).stdout
                except (OSError, subprocess.TimeoutExpired):
                    continue
                if "(error" in out:
                    continue                       # the back end could not read the encoding: inconclusive, not a verdict
                first = out.strip().split("\n")[0].strip() if out.strip() else ""
                if first in ("sat", "unsat"):
                    answers[name] = first
            if answers:
                self.second_checked += 1
            for name, a in answers.items():
                if a != verdict:
                    self.second_disagreements.append(f"{label}: in-process z3 says {verdict}, {name} says {a}")
        finally:
            try:
                _os.unlink(path)
            except OSError:
                pass

    def add(self, *c):
        self.solver.add(*c)
        if self.model is not None:
            for x in c:
                if not z3.is_true(self.model.eval(x, model_completion=True)):
                    self.model = None
                    break

    def fresh_int(self, prefix):
        self._fresh += 1
        return z3.Int(f"_{prefix}{self._fresh}")

    def fresh_real(self, prefix):
        self._fresh += 1
        return z3.Real(f"_{prefix}{self._fresh}")

    def declare(self, name, var):
        self.vars[name] = var

    def current_model(self):
        if self.model is None:
            if self._check() != "sat":
                return None
        return self.model

    @staticmethod
    def _ent(d, val):
        return d if val is None else [d, val]

    def branch(self, cond, _val=None):
        """_val: the concrete value a concretisation step is testing; it is stored with the decision so that a replayed prefix
        tests the very same value (the solver's model, and hence the candidate it suggests, differs between the original run
        and a replay)"""
        cond = z3.simplify(cond)
        if z3.is_true(cond):
            return True
        if z3.is_false(cond):
            return False
        i = len(self.trace)
        if i < len(self.prefix):
            d = self.prefix[i]
            if isinstance(d, (list, tuple)):
                d = d[0]
        else:
            # the cached model of the path condition decides one side for free
            side = None
            m = self.model
            if m is not None:
                v = m.eval(cond, model_completion=True)
                if z3.is_true(v):
                    side = True
                elif z3.is_false(v):
                    side = False
            if side is None:
                rt = self._check(cond)
                if rt == "sat":
                    keep = self.solver.model()
                rf = self._check(z3.Not(cond))
                if "unknown" in (rt, rf):
                    self.stats.inconclusive += 1
                    self.unknowns.append(f"branch {_site()}")
                can_t, can_f = rt != "unsat", rf != "unsat"
                self.model = keep if rt == "sat" else None
            else:
                self.stats.cache_hits += 1
                ro = self._check(z3.Not(cond) if side else cond)
                if ro == "unknown":
                    self.stats.inconclusive += 1
                    self.unknowns.append(f"branch {_site()}")
                can_t = side or ro != "unsat"
                can_f = (not side) or ro != "unsat"
                self.model = m     # still a model of the path condition; valid for the side it satisfies
            if can_t and can_f:
                d = not self.reverse
                self.work.append(self.trace + [self._ent(not d, _val)])
            elif can_t:
                d = True
            elif can_f:
                d = False
            else:
                raise Abort()
        self.trace.append(self._ent(d, _val))
        self.stats.decisions += 1
        c = cond if d else z3.Not(cond)
        self.solver.add(c)
        if self.model is not None and not z3.is_true(self.model.eval(c, model_completion=True)):
            self.model = None
        return d

    def concretize(self, t):
        """Fork over all feasible integer values of term t (bounded by cap)."""
        t = z3.simplify(t)
        if z3.is_int_value(t):
            return t.as_long()
        for _ in range(self.cap):
            i = len(self.trace)
            if i < len(self.prefix) and isinstance(self.prefix[i], (list, tuple)):
                v = z3.IntVal(self.prefix[i][1])          # replay: the value this decision was taken about
            else:
                m = self.current_model()
                if m is None:
                    raise Abort()
                v = m.eval(t, model_completion=True)
            if self.branch(t == v, _val=v.as_long()):
                return v.as_long()
        raise HarnessError(f"BOUND-EXCEEDED: concretisation cap {self.cap} exceeded for {t}")

    def small_domain(self, t):
        """True when term t has at most `cap` feasible values on this path (decided without forking)."""
        t = z3.simplify(t)
        if z3.is_int_value(t):
            return True
        self.solver.push()
        try:
            for _ in range(self.cap + 1):
                if self._check(quick=True) != "sat":
                    return True
                v = self.solver.model().eval(t, model_completion=True)
                self.solver.add(t != v)
            return False
        finally:
            self.solver.pop()
            self.model = None

    def pinned(self, t):
        """If term t can take only one value on this path, return it as a z3 numeral (else None)."""
        t = z3.simplify(t)
        if z3.is_rational_value(t) or z3.is_int_value(t):
            return t
        m = self.current_model()
        if m is None:
            return None
        v = m.eval(t, model_completion=True)
        if not (z3.is_rational_value(v) or z3.is_int_value(v)):
            return None
        return v if self._check(t != v, quick=True) == "unsat" else None

    def quotient(self, a, b):
        """Lazy abstraction of a/b for symbolic b: a fresh real q with linear consequences asserted and the
        exact definition q*b == a kept aside; any `sat` answer to an obligation is re-checked with the
        exact definitions before it counts (so the abstraction can only cost completeness, never soundness)."""
        key = (a.get_id(), b.get_id())
        if key in self._quot:
            return self._quot[key][0]
        self._fresh += 1
        q = z3.Real(f"_q{self._fresh}")
        self._quot[key] = (q, a, b)
        self._quot_by_var[q.get_id()] = (a, b)
        self.exact_defs.append(q * b == a)
        facts = [z3.Implies(a == 0, q == 0), z3.Implies(a == b, q == 1)]
        for sgn_b, flip in ((b > 0, 1), (b < 0, -1)):
            for c in (0, 1, 100, -1):
                le, ge = (a <= c * b, a >= c * b) if flip == 1 else (a >= c * b, a <= c * b)
                facts.append(z3.Implies(z3.And(sgn_b, le), q <= c))
                facts.append(z3.Implies(z3.And(sgn_b, ge), q >= c))
        self.add(*facts)
        return q

    def as_ratio(self, t):
        """(a, b, c) with t == c * a / b when t is (a constant multiple of) an abstracted quotient, else None."""
        t = z3.simplify(t)
        ent = self._quot_by_var.get(t.get_id())
        if ent is not None:
            return ent[0], ent[1], z3.RealVal(1)
        if z3.is_mul(t) and t.num_args() == 2:
            x, y = t.arg(0), t.arg(1)
            for c, q in ((x, y), (y, x)):
                ent = self._quot_by_var.get(q.get_id())
                if ent is not None and z3.is_rational_value(c):
                    return ent[0], ent[1], c
        return None

    def injective_hash(self, t):
        for u, h in self._hashed:
            if self.branch(t == u):
                return h
        h = 7919 + len(self._hashed)
        self._hashed.append((t, h))
        return h

    # -- model extraction -------------------------------------------------------------
    def assignment(self, model):
        return {name: model_value(model.eval(var, model_completion=True)) for name, var in self.vars.items()}

    # -- main loop --------------------------------------------------------------------
    def run(self, fn, cfg=None, prefixes=None, budget_paths=None, budget_s=None, tracer=None):
        """Explore from the given decision prefixes; returns the prefixes left unexplored when a budget ran out."""
        global CUR
        cfg = cfg or {}
        self.work = [list(p) for p in (prefixes if prefixes is not None else [[]])]
        t0 = time.time()
        done = 0
        while self.work:
            if (budget_paths is not None and done >= budget_paths) or (budget_s is not None and time.time() - t0 > budget_s):
                break
            self.prefix = self.work.pop()
            self.trace = []
            self.solver = z3.Solver()
            self.solver.set("timeout", self.timeout_ms)
            self.model = None
            self._fresh = 0
            self._hashed = []
            self._quot = {}
            self._quot_by_var = {}
            self.exact_defs = []
            self.vars = {}
            ctx = SymCtx(self)
            CUR = self
            done += 1
            try:
                if tracer is not None and self.stats.paths < 2:
                    with tracer:
                        fn(ctx, **cfg)
                else:
                    fn(ctx, **cfg)
                self.stats.paths += 1
                m = self.current_model()
                if m is not None and self.exact_defs:
                    # quotient abstractions: take a model in which every abstracted a/b has its exact value
                    if self._check(*self.exact_defs, quick=True) == "sat":
                        m = self.solver.model()
                    else:
                        ctx.observed = []
                if m is not None:
                    self.path_models.append((self.assignment(m), [(l, evaluate(m, v)) for l, v in ctx.observed]))
            except Stop:
                self.stats.paths += 1
            except Abort:
                self.stats.infeasible += 1
            except BoundExceeded:
                self.stats.truncated += 1
            except Exception as e:  # noqa: BLE001
                # an exception of the code under test that the harness did not anticipate: a candidate counterexample of the
                # generic obligation "no unexpected exception" (replayed concretely like any other; if it does not reproduce it is
                # reported as a harness error).  Exceptions raised by the harness's own code propagate as before.
                where = raised_in_code_under_test(e)
                if where is None:
                    raise
                self.stats.paths += 1
                self.stats.obligations += 1
                self.stats.nontrivial += 1
                m = self.current_model()
                self.findings.append(Finding(UNEXPECTED, self.assignment(m) if m is not None else {}, f"{type(e).__name__}: {e} at {where}"))
            finally:
                CUR = None
        left, self.work = self.work, []
        return left


UNEXPECTED = "no-unexpected-exception"


def raised_in_code_under_test(e):
    """"file:line" of the innermost frame of the traceback that lies in the repository's psutil package, if the exception was
    raised there or in a stub called from there; None when it comes from the harness's own code"""
    import os as _os
    import traceback as _tb

    repo = _os.environ.get("PSV_REPO", "/repo") + "/psutil/"
    frames = _tb.extract_tb(e.__traceback__)
    inner = [f for f in frames if f.filename.startswith(repo) or "/psutil/" in f.filename and "/verif/" not in f.filename]
    if not inner:
        return None
    last = frames[-1]
    if "/psv/harness/" in last.filename and not isinstance(e, OSError):
        return None                    # raised by harness code called back from psutil: the harness's business
    # (an OSError raised by a harness stub is a kernel answer the code under test failed to handle: it counts)
    f = inner[-1]
    return f"{f.filename.rsplit('/', 1)[-1]}:{f.lineno}"


def _guard(ctx, label, fn, a, kw, expect):
    """Call the code under test; an exception that is not expected becomes a failed obligation `label`
    (so that it is replayed and reported like any other counterexample) and ends the path."""
    try:
        return fn(*a, **kw)
    except expect:
        raise
    except Exception as e:  # noqa: BLE001   (control-flow exceptions of the engine are BaseException)
        import traceback as _tb

        where = _tb.extract_tb(e.__traceback__)[-1]
        ctx.prove(False, label, detail=f"{type(e).__name__}: {e} at {where.filename.rsplit('/', 1)[-1]}:{where.lineno}")
        raise Stop() from None


def _boolterm(c):
    return z3.BoolVal(c) if isinstance(c, builtins.bool) else lift(c)


class _RegionNS(dict):
    """Namespace in which a known-finding region expression is evaluated (z3 terms or concrete values)."""

    def __init__(self, symbolic, values):
        super().__init__(values)
        self._symbolic = symbolic
        if symbolic:
            self.update(And=z3.And, Or=z3.Or, Not=z3.Not, Implies=z3.Implies)
        else:
            self.update(And=lambda *a: builtins.all(a), Or=lambda *a: builtins.any(a), Not=lambda a: not a,
                        Implies=lambda a, b: (not a) or builtins.bool(b))


def label_matches(label, pat):
    """known-finding label: exact, or a prefix when the pattern ends with '*'"""
    return label == pat or (pat.endswith("*") and label.startswith(pat[:-1]))


def region_holds(expr, values, symbolic=False):
    """Evaluate a region expression over the harness variables (undeclared variables: region does not apply)."""
    try:
        return eval(expr, {"__builtins__": {"any": builtins.any, "all": builtins.all, "range": range, "len": builtins.len}},
                    _RegionNS(symbolic, values))
    except NameError:
        return None


class SymCtx:
    symbolic = True

    def __init__(self, ex):
        self.ex = ex
        self.observed = []
        self.cfg_values = {}

    # inputs -------------------------------------------------------------------------
    def int(self, name, lo=None, hi=None):
        v = z3.Int(name)
        self.ex.declare(name, v)
        if lo is not None:
            self.ex.add(v >= lo)
        if hi is not None:
            self.ex.add(v <= hi)
        return SymInt(v)

    def real(self, name, lo=None, hi=None):
        v = z3.Real(name)
        self.ex.declare(name, v)
        if lo is not None:
            self.ex.add(v >= lift(lo))
        if hi is not None:
            self.ex.add(v <= lift(hi))
        return SymReal(v)

    def bool(self, name):
        v = z3.Bool(name)
        self.ex.declare(name, v)
        return SymBool(v)

    def flag(self, name):
        """A symbolic boolean decided immediately (forks): returns a Python bool."""
        return builtins.bool(self.bool(name))

    def choice(self, name, options):
        i = self.int(name, 0, len(options) - 1)
        return options[i.__index__()]

    # assertions ---------------------------------------------------------------------
    def assume(self, cond):
        self.ex.add(_boolterm(cond))
        if self.ex._check() == "unsat":
            raise Abort()

    def reach(self, label):
        """Reachability witness without an obligation."""
        ex = self.ex
        if label not in ex.witness:
            m = ex.current_model()
            if m is not None:
                ex.witness[label] = ex.assignment(m)

    def prove(self, cond, label, detail=""):
        ex = self.ex
        ex.stats.obligations += 1
        self.reach(label)
        c = _boolterm(cond)
        if not z3.is_true(z3.simplify(c)):
            ex.stats.nontrivial += 1
        extra = []
        for _ in range(8):
            r = ex._check(z3.Not(c), *extra)
            if not extra and ex.second_budget > 0 and r in ("sat", "unsat") and not z3.is_true(z3.simplify(c)):
                ex.second_budget -= 1
                ex.cross_check(z3.Not(c), r, label)
                if r == "sat":
                    r = ex._check(z3.Not(c), *extra)      # the export (push/pop) discarded the model: decide again to have one
            if r == "sat" and ex.exact_defs:
                r = ex._check(z3.Not(c), *(extra + ex.exact_defs))      # refine: the abstraction of a/b made exact
            if r == "unsat":
                if not extra:
                    ex.stats.discharged += 1
                return not extra
            if r == "unknown":
                ex.stats.inconclusive += 1
                ex.unknowns.append(f"obligation {label}")
                return None
            m = ex.solver.model()
            a = ex.assignment(m)
            det = detail(m) if callable(detail) else detail
            hit = None
            for kf in ex.known:
                if label_matches(label, kf["label"]) and kf.get("region"):
                    vals = dict(a)
                    vals.update(self.cfg_values)
                    if region_holds(kf["region"], vals) is True:
                        hit = kf
                        break
            ex.findings.append(Finding(label, a, det, known=hit["id"] if hit else None))
            if hit is None:
                return False
            # inside a known region: look for a different counterexample outside it
            zvals = dict(ex.vars)
            zvals.update(self.cfg_values)
            reg = region_holds(hit["region"], zvals, symbolic=True)
            if reg is None or isinstance(reg, builtins.bool):
                return False
            extra.append(z3.Not(reg))
        return False

    def observe(self, label, value):
        self.observed.append((label, value))

    def guard(self, label, fn, *a, expect=(), **kw):
        return _guard(self, label, fn, a, kw, expect)

    def external(self, label, ok, assignment=None, detail=""):
        """Verdict of an obligation decided by another solver-backed engine of this framework (cir): `ok` discharged,
        otherwise `assignment` is the counterexample (harness variable -> value) that the concrete replay re-runs."""
        ex = self.ex
        ex.stats.obligations += 1
        ex.stats.nontrivial += 1
        self.reach(label)
        if ok:
            ex.stats.discharged += 1
            return True
        full = {}
        m = ex.current_model()
        if m is not None:
            full.update(ex.assignment(m))      # the psym-level decisions of this path (flags, choices) belong to the counterexample
        full.update(assignment or {})
        ex.findings.append(Finding(label, full, detail))
        return False

    def add_stats(self, **kw):
        for k_, v in kw.items():
            if k_ == "solver_s":
                self.ex.stats.solver_s += v
            else:
                setattr(self.ex.stats, k_, getattr(self.ex.stats, k_) + v)

    # term helpers (work in both modes) ----------------------------------------------
    @staticmethod
    def all(items):
        items = [_boolterm(x) for x in items]
        return SymBool(z3.And(*items)) if items else True

    @staticmethod
    def any(items):
        items = [_boolterm(x) for x in items]
        return SymBool(z3.Or(*items)) if items else False

    @staticmethod
    def implies(a, b):
        return SymBool(z3.Implies(_boolterm(a), _boolterm(b)))

    @staticmethod
    def neg(a):
        return SymBool(z3.Not(_boolterm(a)))

    @staticmethod
    def ite(c, a, b):
        if isinstance(c, builtins.bool):
            return a if c else b
        ra, rb = _rep(a), _rep(b)
        if ra is not None and rb is not None and not (isinstance(a, (SymInt, int)) and isinstance(b, (SymInt, int))):
            na, nb, L = _common(ra, rb)
            return _from_rep(z3.If(lift(c), na, nb), L)
        x, y = _coerce(a, b)
        return _num(z3.If(lift(c), x, y))

    @staticmethod
    def eq(a, b):
        """Equality as a term (no fork)."""
        if hasattr(a, "eq_term"):
            return SymBool(a.eq_term(b))
        if hasattr(b, "eq_term"):
            return SymBool(b.eq_term(a))
        if isinstance(a, (tuple, list)) and isinstance(b, (tuple, list)):
            if len(a) != len(b):
                return False
            return SymCtx.all([SymCtx.eq(x, y) for x, y in zip(a, b)])
        if is_sym(a) or is_sym(b):
            if not (isinstance(a, (Sym, int, float, fractions.Fraction)) and isinstance(b, (Sym, int, float, fractions.Fraction))):
                return False
            if isinstance(a, SymBool) or isinstance(b, SymBool):
                return SymBool(_boolterm(a) == _boolterm(b))
            ra, rb = _rep(a), _rep(b)
            if ra is not None and rb is not None:
                na, nb, _ = _common(ra, rb)
                return SymBool(na == nb)
            x, y = _coerce(a, b)
            return SymBool(x == y)
        return _tol_eq(a, b)       # two concrete numbers (a concrete unit next to the symbolic one): float tolerance

    max = staticmethod(sym_max)
    min = staticmethod(sym_min)

    def is_ratio(self, x, num, den):
        """Term for `x == num/den` (den != 0 on this path) that stays linear: when x is an abstracted quotient
        c*a/b of the code under test, it is decided structurally as b == den and c*a == num."""
        r = self.ex.as_ratio(lift(x)) if is_sym(x) else None
        if r is not None:
            a, b, c = r
            dn, nm = lift(den), lift(num)
            if dn.sort() == z3.IntSort():
                dn = z3.ToReal(dn)
            if nm.sort() == z3.IntSort():
                nm = z3.ToReal(nm)
            return SymBool(z3.And(b == dn, c * a == nm))
        return self.eq(x, num / den)

    @staticmethod
    def sum(items):
        r = 0
        for x in items:
            r = r + x
        return r

    @staticmethod
    def div(a, b):
        """Exact a/b (b a concrete non-zero int)."""
        if is_sym(a):
            return a / b
        return fractions.Fraction(a) / fractions.Fraction(b)

    @staticmethod
    def trunc(x):
        """Truncation toward zero of a real-valued term (Python int())."""
        if isinstance(x, SymReal):
            return sym_trunc(x)
        if is_sym(x):
            return x
        return builtins.int(x)


def _tol_eq(a, b):
    if isinstance(a, (tuple, list)) and isinstance(b, (tuple, list)):
        return len(a) == len(b) and builtins.all(_tol_eq(x, y) for x, y in zip(a, b))
    num = (int, float, fractions.Fraction)
    if isinstance(a, num) and isinstance(b, num) and not isinstance(a, builtins.bool) and not isinstance(b, builtins.bool):
        if isinstance(a, float) or isinstance(b, float):
            fa, fb = builtins.float(a), builtins.float(b)
            return fa == fb or builtins.abs(fa - fb) <= 1e-9 * builtins.max(builtins.abs(fa), builtins.abs(fb), 1e-300) + 1e-12
        return a == b
    return a == b


class ConcreteCtx:
    """Same interface, ordinary Python values taken from an assignment."""

    symbolic = False

    def __init__(self, assignment):
        self.a = assignment
        self.failed = []
        self.details = {}
        self.observed = []
        self.cfg_values = {}

    # a variable declared after the model was taken was unconstrained then: any in-range value will do
    def int(self, name, lo=None, hi=None):
        return builtins.int(self.a.get(name, lo if lo is not None else 0))

    def real(self, name, lo=None, hi=None):
        return fractions.Fraction(self.a.get(name, lo if lo is not None else 0))

    def bool(self, name):
        return builtins.bool(self.a.get(name, False))

    flag = bool

    def choice(self, name, options):
        return options[self.a.get(name, 0)]

    def assume(self, cond):
        if not cond:
            raise Abort()

    def reach(self, label):
        pass

    def prove(self, cond, label, detail=""):
        if not cond:
            self.failed.append(label)
            self.details[label] = detail(None) if callable(detail) else detail
        return builtins.bool(cond)

    def observe(self, label, value):
        self.observed.append((label, value))

    def guard(self, label, fn, *a, expect=(), **kw):
        return _guard(self, label, fn, a, kw, expect)

    def external(self, label, ok, assignment=None, detail=""):
        return self.prove(builtins.bool(ok), label, detail)

    def add_stats(self, **kw):
        pass

    all = staticmethod(lambda items: builtins.all(items))
    any = staticmethod(lambda items: builtins.any(items))
    implies = staticmethod(lambda a, b: (not a) or builtins.bool(b))
    neg = staticmethod(lambda a: not a)
    ite = staticmethod(lambda c, a, b: a if c else b)
    eq = staticmethod(_tol_eq)

    @staticmethod
    def is_ratio(x, num, den):
        return _tol_eq(builtins.float(x), builtins.float(fractions.Fraction(num) / fractions.Fraction(den)))

    max = staticmethod(builtins.max)
    min = staticmethod(builtins.min)
    sum = staticmethod(lambda items: builtins.sum(items))

    @staticmethod
    def div(a, b):
        return fractions.Fraction(a) / b

    @staticmethod
    def trunc(x):
        return builtins.int(x)
