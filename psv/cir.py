"""cir: bounded symbolic interpreter for the LLVM IR (clang -O0) of named C leaf functions, over z3 bit-vectors.

* the IR is produced from /repo's current C sources on every run (`lower()`), with the macros setup.py uses on Linux;
* struct layouts come from the IR's own type table (x86-64 data layout);
* memory = objects (allocas, globals, stub-returned buffers) with a size; a pointer = (object, concrete offset) plus the
  bounds of the sub-object the last getelementptr selected; every load/store carries the obligation 0 <= off, off+width <= size;
* branches on symbolic conditions fork; external calls are stubs supplied by the harness.
Limits: a symbolic array index is resolved by forking over its feasible values (at most index_cap = 64), no floating point except sitofp, no varargs beyond the stubs, no function
pointers, internal calls must be stubbed by the harness.
"""
import copy
import os
import re
import shutil
import subprocess
import sysconfig
import tempfile
import time

import z3

REPO = os.environ.get("PSV_REPO", "/repo")
MACROS = ["-DPSUTIL_POSIX=1", "-DPSUTIL_LINUX=1", "-DPSUTIL_SIZEOF_PID_T=4", "-DPSUTIL_VERSION=700", "-DPy_LIMITED_API=0x03060000"]


def lower(relpath):
    """clang -S -emit-llvm -O0 of /repo/psutil/<relpath>; returns the IR text (scratch files removed)."""
    d = tempfile.mkdtemp(prefix="psv-cir-", dir=os.environ.get("TMPDIR", "/tmp"))
    try:
        out = os.path.join(d, "x.ll")
        inc = sysconfig.get_paths()["include"]
        cmd = ["clang", "-S", "-emit-llvm", "-O0", "-Xclang", "-disable-O0-optnone", "-I" + inc] + MACROS + [os.path.join(REPO, "psutil", relpath), "-o", out]
        r = subprocess.run(cmd, capture_output=True, text=True)
        if r.returncode != 0:
            raise RuntimeError(f"clang failed on {relpath}: {r.stderr[-800:]}")
        return open(out).read()
    finally:
        shutil.rmtree(d, ignore_errors=True)


class Ptr:
    __slots__ = ("obj", "off", "lo", "hi")

    def __init__(self, obj, off, lo=None, hi=None):
        self.obj, self.off, self.lo, self.hi = obj, off, lo, hi

    def __repr__(self):
        return f"Ptr({self.obj}+{self.off} [{self.lo},{self.hi}))"


NULL = Ptr(None, 0)


class Obj:
    def __init__(self, name, size, init=None):
        self.name, self.size = name, size
        self.cells = {}          # off -> (width_bytes, value): typed cells written by stores
        self.bytes = init or {}  # off -> z3 BV8: initial (symbolic or concrete) bytes


class Module:
    def __init__(self, text):
        self.text = text
        self.structs, self.globals, self.funcs = {}, {}, {}
        for m in re.finditer(r"^(%[\w.]+) = type (.+)$", text, re.M):
            self.structs[m.group(1)] = m.group(2).strip()
        for m in re.finditer(r'^(@[\w.]+) = .*constant \[(\d+) x i8\] c"((?:[^"\\]|\\.)*)"', text, re.M):
            raw = re.sub(r"\\([0-9A-Fa-f]{2})", lambda x: chr(int(x.group(1), 16)), m.group(3))
            self.globals[m.group(1)] = bytes(ord(c) for c in raw)
        for m in re.finditer(r"^define [^@]*(@[\w.]+)\(([^)]*)\)[^{]*\{\n(.*?)^\}", text, re.M | re.S):
            self.funcs[m.group(1)] = (m.group(2), m.group(3))

    @staticmethod
    def split_fields(body):
        out, depth, cur = [], 0, ""
        for ch in body:
            if ch in "{[<(":
                depth += 1
            if ch in "}]>)":
                depth -= 1
            if ch == "," and depth == 0:
                out.append(cur.strip())
                cur = ""
            else:
                cur += ch
        if cur.strip():
            out.append(cur.strip())
        return out

    def size_align(self, ty):
        ty = ty.strip()
        if ty.endswith("*"):
            return 8, 8
        m = re.fullmatch(r"i(\d+)", ty)
        if m:
            n = max(1, int(m.group(1)) // 8)
            return n, n
        if ty == "double":
            return 8, 8
        if ty == "float":
            return 4, 4
        m = re.fullmatch(r"\[(\d+) x (.+)\]", ty)
        if m:
            s, a = self.size_align(m.group(2))
            return int(m.group(1)) * s, a
        if ty.startswith("%"):
            return self.size_align(self.structs[ty])
        if ty.startswith("<{"):
            return sum(self.size_align(f)[0] for f in self.split_fields(ty[2:-2])), 1
        if ty.startswith("{"):
            off, al = 0, 1
            for f in self.split_fields(ty[1:-1]):
                s, a = self.size_align(f)
                off = (off + a - 1) // a * a + s
                al = max(al, a)
            return (off + al - 1) // al * al, al
        raise NotImplementedError(ty)

    def field(self, ty, idx):
        """(offset, type) of element idx inside aggregate ty"""
        ty = ty.strip()
        if ty.startswith("%"):
            ty = self.structs[ty]
        m = re.fullmatch(r"\[(\d+) x (.+)\]", ty)
        if m:
            s, _ = self.size_align(m.group(2))
            return idx * s, m.group(2)
        packed = ty.startswith("<{")
        off = 0
        for i, f in enumerate(self.split_fields(ty[2:-2] if packed else ty[1:-1])):
            s, a = self.size_align(f)
            if not packed:
                off = (off + a - 1) // a * a
            if i == idx:
                return off, f
            off += s
        raise IndexError(idx)


class Violation(Exception):
    pass


class State:
    def __init__(self):
        self.regs, self.objs, self.pc, self.log, self.nobj = {}, {}, [], [], 0
        self.frames, self.fname = [], None        # call stack of the functions of the module that are executed (not stubbed)

    def new_obj(self, name, size, init=None):
        self.nobj += 1
        k = f"{name}#{self.nobj}"
        self.objs[k] = Obj(k, size, init)
        return k

    def clone(self):
        s = State()
        s.regs, s.pc, s.log, s.nobj = dict(self.regs), list(self.pc), list(self.log), self.nobj
        s.fname, s.frames = self.fname, [(fn, dict(rg), b, i, pv, d) for fn, rg, b, i, pv, d in self.frames]
        s.objs = {k: copy.copy(o) for k, o in self.objs.items()}
        for o in s.objs.values():
            o.cells, o.bytes = dict(o.cells), dict(o.bytes)
        return s


class Interp:
    def __init__(self, mod, stubs, timeout_ms=10000):
        self.mod, self.stubs, self.timeout_ms = mod, stubs, timeout_ms
        self.queries = self.paths = self.steps = self.obligations = self.discharged = self.unknown = self.branches = 0
        self.solver_s = 0.0
        self.findings = []
        self.index_cap = 64
        self.max_paths, self.path_bound_hit = None, False
        self.paths_after_finding, self._first_finding_at = None, None      # stop exploring this many paths after the first finding

    def sat(self, st, *extra):
        s = z3.Solver()
        s.set("timeout", self.timeout_ms)
        s.add(*st.pc)
        s.add(*extra)
        t = time.time()
        r = str(s.check())
        self.solver_s += time.time() - t
        self.queries += 1
        if r == "unknown":
            self.unknown += 1
        return r, (s.model() if r == "sat" else None)

    def oblige(self, st, cond, what):
        """cond must hold on every model of the path condition"""
        self.obligations += 1
        if isinstance(cond, bool):
            if cond:
                self.discharged += 1
                return True
            r, m = self.sat(st)
        else:
            c = z3.simplify(cond)
            if z3.is_true(c):
                self.discharged += 1
                return True
            r, m = self.sat(st, z3.Not(c))
        if r == "sat":
            self.findings.append((what, m, list(st.log)))
            return False
        if r == "unsat":
            self.discharged += 1
        return True

    # ---- operands ----
    def val(self, st, ty, tok):
        tok = tok.strip()
        if tok == "null":
            return NULL
        if tok.startswith("%"):
            return st.regs[tok]
        if tok.startswith("@"):
            return self.global_ptr(st, tok)
        m = re.match(r"getelementptr inbounds \(\[(\d+) x i8\], \[\d+ x i8\]\* (@[\w.]+), i64 0, i64 0\)", tok)
        if m:
            return self.global_ptr(st, m.group(2))
        m = re.match(r"bitcast \(.+? (@[\w.]+) to .+\)", tok)
        if m:
            return self.global_ptr(st, m.group(1))
        if re.fullmatch(r"-?\d+", tok):
            return z3.BitVecVal(int(tok), int(ty[1:]))
        if tok in ("true", "false"):
            return z3.BitVecVal(1 if tok == "true" else 0, 1)
        raise NotImplementedError((ty, tok))

    def global_ptr(self, st, name):
        k = "G" + name
        if k not in st.objs:
            data = self.mod.globals.get(name)
            if data is None:
                st.objs[k] = Obj(k, 16)   # opaque external global (e.g. _Py_NoneStruct, PyExc_*)
                if name in ("@_Py_NoneStruct", "@_Py_TrueStruct", "@_Py_FalseStruct"):
                    # CPython 3.12 singletons are immortal: ob_refcnt = _Py_IMMORTAL_REFCNT (UINT_MAX on 64-bit builds)
                    st.objs[k].bytes = {i: z3.BitVecVal(0xFF if i < 4 else 0, 8) for i in range(8)}
            else:
                st.objs[k] = Obj(k, len(data), {i: z3.BitVecVal(b, 8) for i, b in enumerate(data)})
        return Ptr(k, 0, 0, st.objs[k].size)

    # ---- memory ----
    def check_access(self, st, p, nbytes, what):
        if p.obj is None:
            raise Violation(f"{what}: NULL pointer dereference")
        o = st.objs[p.obj]
        self.oblige(st, 0 <= p.off and p.off + nbytes <= o.size, f"{what} out of bounds: {p} width {nbytes} object size {o.size}")
        return o

    def load(self, st, p, nbytes, isptr):
        o = self.check_access(st, p, nbytes, "load")
        if p.off in o.cells and o.cells[p.off][0] == nbytes:
            return o.cells[p.off][1]
        if isptr:
            if p.obj.startswith("G@") and not o.bytes:
                # an external pointer variable (PyExc_OSError, ...): an opaque object, the same one on every load
                k = "X" + p.obj[1:]
                if k not in st.objs:
                    st.objs[k] = Obj(k, 16)
                v = Ptr(k, 0, 0, 16)
                o.cells[p.off] = (nbytes, v)
                return v
            if p.obj.startswith("alloca") and not any(p.off <= b < p.off + nbytes for b in o.bytes) and not any(base < p.off + nbytes and p.off < base + w_ for base, (w_, _) in o.cells.items()):
                # a local pointer variable that no store (of this function or of a stub) has written on this path
                raise Violation(f"load of an uninitialised local pointer {p.obj.split('#')[0]} (no store reaches it on this path)")
            raise NotImplementedError(f"pointer load from raw bytes {p}")
        bs = []
        for i in range(nbytes):
            bs.append(self.byte_at(st, p.obj, p.off + i))
        return z3.Concat(*reversed(bs)) if nbytes > 1 else bs[0]

    def store(self, st, p, nbytes, v):
        o = self.check_access(st, p, nbytes, "store")
        o.cells[p.off] = (nbytes, v)
        if not isinstance(v, (Ptr, tuple)):
            for i in range(nbytes):       # keep the byte view coherent for later narrower reads
                o.bytes[p.off + i] = z3.Extract(8 * i + 7, 8 * i, v) if nbytes > 1 else v

    def byte_at(self, st, obj, off):
        o = st.objs[obj]
        for base, (w, v) in o.cells.items():
            if base <= off < base + w and not isinstance(v, (Ptr, tuple)):
                return z3.Extract(8 * (off - base) + 7, 8 * (off - base), v) if w > 1 else v
        if off not in o.bytes:
            o.bytes[off] = z3.BitVec(f"{obj}[{off}]", 8)
        return o.bytes[off]

    def _gep_linear(self, st, ty, idxs, symtok):
        """for a getelementptr whose only non-constant index is register `symtok`: (coefficient of that index in bytes, byte offset
        contributed by the constant indices, size of the element finally addressed); None when the shape is not supported"""
        toks = [x.split()[1] for x in idxs.strip(", ").split(", ")]
        coef, off, cur = None, 0, ty
        for pos, tok in enumerate(toks):
            if tok.startswith("%"):
                v = z3.simplify(st.regs[tok])
                const = v.as_signed_long() if z3.is_bv_value(v) else None
            else:
                const = int(tok)
            if pos == 0:
                es = self.size_align_of(cur)
                if const is None:
                    if tok != symtok or coef is not None:
                        return None
                    coef = es
                else:
                    off += const * es
                continue
            t = cur.strip()
            if t.startswith("%"):
                t = self.mod.structs[t]
            m = re.fullmatch(r"\[(\d+) x (.+)\]", t)
            if const is None:
                if not m or tok != symtok or coef is not None:
                    return None
                coef = self.size_align_of(m.group(2))
                cur = m.group(2)
            else:
                o, fty = self.mod.field(cur, const)
                off += o
                cur = fty
        if coef is None or coef <= 0:
            return None
        return coef, off, self.size_align_of(cur) if len(toks) > 1 else self.size_align_of(ty)

    def size_align_of(self, ty):
        return self.mod.size_align(ty)[0]

    # ---- run ----
    def blocks_of(self, fname):
        params, body = self.mod.funcs[fname]
        blocks, cur = {"entry": []}, "entry"
        for line in body.split("\n"):
            line = line.split(" ; ")[0].rstrip() if not line.strip().startswith(";") else ""
            m = re.match(r"^(\d+):", line)
            if m:
                cur = "%" + m.group(1)
                blocks[cur] = []
                continue
            if line.strip():
                blocks[cur].append(line.strip())
        return blocks

    def run(self, fname, args, st=None, max_steps=400000):
        st = st or State()
        st.fname = fname
        self._blocks = {}
        for i, a in enumerate(args):
            st.regs[f"%{i}"] = a
        work = [(st, "entry", 0, None)]
        results = []
        self.max_steps = max_steps
        while work:
            if self.findings and self.paths_after_finding is not None:
                if self._first_finding_at is None:
                    self._first_finding_at = self.paths
                if self.paths - self._first_finding_at >= self.paths_after_finding:
                    self.path_bound_hit = True         # enough: what was found is reported (and replayed); the rest is not explored
                    break
            if self.max_paths is not None and self.paths >= self.max_paths:
                # path bound: with findings in hand they are reported (and replayed); without any the run cannot vouch for anything
                if not self.findings:
                    raise RuntimeError(f"cir path bound exceeded ({self.max_paths} paths of {fname}) before any obligation failed")
                self.path_bound_hit = True
                break
            st, blk, idx, prev = work.pop()
            try:
                r = self.exec_path(st, None, blk, idx, prev, work, fname)
                if r is not None:
                    results.append((st, r))
                    self.paths += 1
            except Violation as e:
                r_, m_ = self.sat(st)
                self.findings.append((str(e), m_, list(st.log)))
                self.paths += 1
        return results

    def _blocks_for(self, fname):
        if fname not in self._blocks:
            self._blocks[fname] = self.blocks_of(fname)
        return self._blocks[fname]

    def exec_path(self, st, blocks, blk, idx, prev, work, fname):
        local_steps = 0
        blocks = self._blocks_for(st.fname)
        while True:
            ins = blocks[blk][idx]
            idx += 1
            self.steps += 1
            local_steps += 1
            if local_steps > self.max_steps:
                # unwinding assertion: every loop of the functions encoded has a trip count fixed by the sizes the harness states
                raise Violation(f"loop does not terminate within the unwinding bound ({self.max_steps} instructions on one path)")
            m = re.match(r"(%[\w.]+) = (.*)", ins)
            dst, rhs = (m.group(1), m.group(2)) if m else (None, ins)
            op = rhs.split()[0]
            if op == "alloca":
                ty = rhs[len("alloca "):].split(", align")[0]
                size, _ = self.mod.size_align(ty)
                k = st.new_obj("alloca" + dst, size)
                st.regs[dst] = Ptr(k, 0, 0, size)
            elif op == "store":
                m = re.match(r"store (.+?) (\S+|getelementptr inbounds \(.*?\)|bitcast \(.*?\)), (.+?)\* (%[\w.]+|@[\w.]+), align", rhs)
                ty, vtok, pty, ptok = m.groups()
                v = self.val(st, ty, vtok)
                self.store(st, self.val(st, None, ptok) if ptok.startswith("@") else st.regs[ptok], self.mod.size_align(ty)[0], v)
            elif op == "load":
                m = re.match(r"load (.+?), (.+?)\* (%[\w.]+|@[\w.]+), align", rhs)
                ty, _, ptok = m.groups()
                st.regs[dst] = self.load(st, self.val(st, None, ptok), self.mod.size_align(ty)[0], ty.endswith("*"))
            elif op == "getelementptr":
                m = re.match(r"getelementptr inbounds (.+?), (.+?)\* (%[\w.]+)((?:, i(?:32|64) (?:-?\d+|%[\w.]+))+)", rhs)
                ty, _, ptok, idxs = m.groups()
                p = st.regs[ptok]
                ids = []
                for x in idxs.strip(", ").split(", "):
                    t_, v_ = x.split()
                    if v_.startswith("%"):
                        c = z3.simplify(st.regs[v_])
                        if not z3.is_bv_value(c) and p.obj is not None:
                            # memory safety first: the element addressed must lie inside the object for EVERY feasible index;
                            # the exploration then continues with the in-bounds indices only
                            lin = self._gep_linear(st, ty, idxs, v_)
                            if lin is not None:
                                coef, const_off, esz = lin
                                osz = st.objs[p.obj].size
                                base = p.off + const_off
                                lo_i = -(base // coef)
                                hi_i = (osz - base - esz) // coef
                                inb = z3.And(c >= lo_i, c <= hi_i)
                                self.oblige(st, inb, f"load/store out of bounds: symbolic index into {p} (element size {esz}, object size {osz})")
                                st.pc.append(inb)
                                if self.sat(st)[0] != "sat":
                                    return None
                        if not z3.is_bv_value(c):
                            # symbolic index: fork over every feasible value (bounded by index_cap; exceeding it is an error, never a
                            # silent truncation).  This path continues with the first value, the others resume at this instruction.
                            vals, probe = [], list(st.pc)
                            while len(vals) <= self.index_cap:
                                r_, m_ = self.sat(st, *[c != x for x in vals])
                                if r_ != "sat":
                                    break
                                vals.append(m_.eval(c, model_completion=True))
                            if len(vals) > self.index_cap:
                                raise NotImplementedError(f"symbolic index in getelementptr with more than {self.index_cap} feasible values")
                            if not vals:
                                return None
                            self.branches += len(vals) - 1
                            for x in vals[1:]:
                                s2 = st.clone()
                                s2.pc.append(c == x)
                                s2.regs[v_] = x
                                work.append((s2, blk, idx - 1, prev))
                            st.pc.append(c == vals[0])
                            st.regs[v_] = c = vals[0]
                        ids.append(c.as_signed_long())
                    else:
                        ids.append(int(v_))
                off = p.off + ids[0] * self.mod.size_align(ty)[0]
                lo, hi = p.lo, p.hi
                first_ty = ty
                for i in ids[1:]:
                    o, fty = self.mod.field(ty, i)
                    off += o
                    ty = fty
                    lo, hi = off, off + self.mod.size_align(fty)[0]   # narrow to the selected sub-object
                m2 = re.fullmatch(r"\[(\d+) x i8\]", first_ty.strip())
                if m2 and ids == [0, 0]:
                    lo, hi = p.off, p.off + int(m2.group(1))            # decay of a char array: keep the array's bounds
                st.regs[dst] = Ptr(p.obj, off, lo, hi)
            elif op == "bitcast":
                m = re.match(r"bitcast .+? (%[\w.]+|@[\w.]+) to", rhs)
                st.regs[dst] = self.val(st, None, m.group(1))
            elif op in ("sext", "zext", "trunc"):
                m = re.match(r"\w+ i(\d+) (\S+) to i(\d+)", rhs)
                a, tok, b = int(m.group(1)), m.group(2), int(m.group(3))
                v = self.val(st, f"i{a}", tok)
                st.regs[dst] = z3.SignExt(b - a, v) if op == "sext" else z3.ZeroExt(b - a, v) if op == "zext" else z3.Extract(b - 1, 0, v)
            elif op == "sitofp":
                m = re.match(r"sitofp i(\d+) (\S+) to double", rhs)
                st.regs[dst] = ("double_of", self.val(st, "i" + m.group(1), m.group(2)))
            elif op in ("add", "sub", "and", "or", "xor", "shl", "lshr", "ashr", "mul", "sdiv", "udiv", "srem", "urem"):
                m = re.match(r"\w+ (?:nsw |nuw |exact )*i(\d+) (\S+), (\S+)", rhs)
                w = m.group(1)
                a, b = self.val(st, "i" + w, m.group(2)), self.val(st, "i" + w, m.group(3))
                if " nsw " in rhs:
                    chk = {"add": lambda: z3.And(z3.BVAddNoOverflow(a, b, True), z3.BVAddNoUnderflow(a, b)), "sub": lambda: z3.And(z3.BVSubNoOverflow(a, b), z3.BVSubNoUnderflow(a, b, True)),
                           "mul": lambda: z3.And(z3.BVMulNoOverflow(a, b, True), z3.BVMulNoUnderflow(a, b))}.get(op)
                    if chk:
                        self.oblige(st, chk(), "signed integer overflow in `" + ins + "`")
                st.regs[dst] = {"add": lambda: a + b, "sub": lambda: a - b, "and": lambda: a & b, "or": lambda: a | b, "xor": lambda: a ^ b, "shl": lambda: a << b,
                                "lshr": lambda: z3.LShR(a, b), "ashr": lambda: a >> b, "mul": lambda: a * b, "sdiv": lambda: a / b, "udiv": lambda: z3.UDiv(a, b),
                                "srem": lambda: z3.SRem(a, b), "urem": lambda: z3.URem(a, b)}[op]()
            elif op == "icmp":
                m = re.match(r"icmp (\w+) (.+?) (\S+|getelementptr inbounds \(.*?\)), (\S+)$", rhs)
                pred, ty, x, y = m.groups()
                if ty.endswith("*"):
                    a, b = self.val(st, ty, x), self.val(st, ty, y)
                    same = (a.obj == b.obj and a.off == b.off)
                    st.regs[dst] = z3.BitVecVal(int(same if pred == "eq" else not same), 1)
                else:
                    a, b = self.val(st, ty, x), self.val(st, ty, y)
                    c = {"eq": a == b, "ne": a != b, "slt": a < b, "sle": a <= b, "sgt": a > b, "sge": a >= b,
                         "ult": z3.ULT(a, b), "ule": z3.ULE(a, b), "ugt": z3.UGT(a, b), "uge": z3.UGE(a, b)}[pred]
                    st.regs[dst] = z3.If(c, z3.BitVecVal(1, 1), z3.BitVecVal(0, 1))
            elif op == "select":
                m = re.match(r"select i1 (\S+), (\S+) (\S+), \S+ (\S+)$", rhs)
                c = self.val(st, "i1", m.group(1)) == 1
                st.regs[dst] = z3.If(c, self.val(st, m.group(2), m.group(3)), self.val(st, m.group(2), m.group(4)))
            elif op == "phi":
                m = re.match(r"phi (\S+) (.*)", rhs)
                ty = m.group(1)
                for val_, lab in re.findall(r"\[ (\S+), (%\d+|%entry) \]", m.group(2)):
                    if lab == prev or (prev == "entry" and lab == "%entry"):
                        st.regs[dst] = self.val(st, ty, val_)
                        break
                else:
                    raise NotImplementedError("phi without matching predecessor: " + ins)
            elif op == "br":
                m = re.match(r"br i1 (\S+), label (%\d+), label (%\d+)", rhs)
                if m:
                    c = z3.simplify(self.val(st, "i1", m.group(1)) == 1)
                    if z3.is_true(c):
                        nxt = m.group(2)
                    elif z3.is_false(c):
                        nxt = m.group(3)
                    else:
                        self.branches += 1
                        t = self.sat(st, c)[0] != "unsat"
                        f = self.sat(st, z3.Not(c))[0] != "unsat"
                        if t and f:
                            s2 = st.clone()
                            s2.pc.append(z3.Not(c))
                            work.append((s2, m.group(3), 0, blk))
                            st.pc.append(c)
                            nxt = m.group(2)
                        elif t:
                            nxt = m.group(2)
                        elif f:
                            nxt = m.group(3)
                        else:
                            return None
                else:
                    nxt = re.match(r"br label (%\d+)", rhs).group(1)
                prev, blk, idx = blk, nxt, 0
            elif op == "ret":
                m = re.match(r"ret (.+?) (\S+)$", rhs)
                rv = self.val(st, m.group(1), m.group(2)) if m else "void"
                if not st.frames:
                    return rv
                st.fname, st.regs, blk, idx, prev, rdst = st.frames.pop()
                blocks = self._blocks_for(st.fname)
                if rdst:
                    st.regs[rdst] = rv
            elif op in ("call", "tail"):
                m = re.match(r"(?:tail )?call (.+?) (?:\(.*?\) )?(@[\w.]+)\((.*)\)", rhs)
                fn, argstr = m.group(2), m.group(3)
                args = []
                for a in self.mod.split_fields(argstr):
                    a = re.sub(r"\b(noundef|nonnull|signext|zeroext|align \d+|noalias|nocapture|readonly|writeonly)\b ?", "", a).strip()
                    mm = re.match(r"(.+?\*|i\d+|double) (.+)$", a)
                    aty, atok = mm.groups()
                    args.append(st.regs[atok] if atok.startswith("%") else self.val(st, aty, atok))
                if fn not in self.stubs:
                    if fn in self.mod.funcs and len(st.frames) < 8:
                        # a function defined in the same translation unit: executed, not trusted
                        st.frames.append((st.fname, st.regs, blk, idx, prev, dst))
                        st.fname, st.regs = fn, {f"%{i}": a for i, a in enumerate(args)}
                        blocks = self._blocks_for(fn)
                        self.called = getattr(self, "called", set()) | {fn}
                        blk, idx, prev = "entry", 0, None
                        continue
                    raise NotImplementedError("call to " + fn + " has no stub")
                r = self.stubs[fn](self, st, work, (blk, idx, prev, dst), *args)
                if dst:
                    st.regs[dst] = r
            elif op == "unreachable":
                return None
            else:
                raise NotImplementedError(ins)


# ---- generic stubs --------------------------------------------------------------------------------------------------------

def newobj(I, st, tag, size=16):
    """a CPython object returned by a trusted API stub: a 16-byte header (refcount, type)"""
    k = st.new_obj(tag, size)
    st.objs[k].cells[0] = (8, z3.BitVecVal(1, 64))
    return Ptr(k, 0, 0, size)


def nop(I, st, w, c, *a):
    return None


def cstring_obligations(I, st, p, what):
    """A C string is read at p: it must end inside its object (memory safety) and, when p points into a fixed-width field,
    inside that field (decoding fidelity).  One formula per obligation instead of a per-byte fork."""
    o = st.objs[p.obj]
    bytes_ = [I.byte_at(st, p.obj, i) for i in range(p.off, o.size)]
    I.oblige(st, z3.Or(*[b == 0 for b in bytes_]) if bytes_ else False, f"{what}: C string read runs past the end of object {p.obj.split('#')[0]}")
    if p.hi is not None and p.hi < o.size:
        I.oblige(st, z3.Or(*[I.byte_at(st, p.obj, i) == 0 for i in range(p.off, p.hi)]),
                 f"{what}: decoded string exceeds its field [{p.lo},{p.hi}) of {p.obj.split('#')[0]}")


def const_cstr(I, st, p):
    o = st.objs[p.obj]
    out = []
    for i in range(p.off, o.size):
        b = z3.simplify(I.byte_at(st, p.obj, i))
        if not z3.is_bv_value(b):
            return None
        if b.as_long() == 0:
            break
        out.append(b.as_long())
    return bytes(out).decode("latin-1")
