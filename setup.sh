#!/bin/bash
# Builds what the checks need from files on disk only (offline): z3-solver (+ crosshair-tool) into /verif/.deps.
# Safe to call concurrently (flock) and repeatedly (no-op when present).
cd "$(dirname "$0")" || exit 2
PY=/venv/bin/python
(
  flock 9
  if ! PYTHONPATH="$PWD/.deps" $PY -c "import z3" >/dev/null 2>&1; then
    rm -rf .deps
    PIP_NO_INDEX=1 $PY -m pip install -q --no-index --find-links /opt/veriftools/wheels --target .deps z3-solver >&2 || exit 2
  fi
) 9>.lock || exit 2
if [ "$1" = "--selftest" ]; then
  export PYTHONPATH="$PWD/.deps:$PWD" PYTHONDONTWRITEBYTECODE=1 PYTHONHASHSEED=0
  exec $PY -m psv.selftest
fi
